#!/usr/bin/env python3
"""Regenerate /verif/MANIFEST.json from the table below and validate it (run with python3-vt for schema validation)."""
import json
import os
import sys

HERE = os.path.dirname(os.path.dirname(os.path.abspath(__file__)))

ALL = ['C%02d' % i for i in range(1, 21)]

# property -> (design section, text of the level claimed, note / trusted base, technique)
ENG_NOTE = 'Exhaustive only within the bounds of the MC_Engine families (tables of <= 2-4 records over 2-3 cell values, select lists of <= 2 items from the RbqlValues vocabulary); arbitrary user expressions are outside the vocabulary. TLC, the JSON bridge, the renderer (abstract query -> RBQL text) and the projections are trusted.'
ENG_TECH = 'TLA+ engine spec (operational machine vs declarative Ref) model-checked by TLC; exhaustive spec->code replay of TLC-emitted cases; TLC monitors over recorded events'

CLAIMED = {
    'C11': ('5 C11, 3.6',
            'TLC proves, for every line within the bound over {quote, delimiter chars, space, other}, that the scanner automaton (CsvScanner) computes the '
            'declarative dialect (CsvDialect) and that preserve-mode spans re-join to the line; every such line is then replayed into smart_split and '
            'CSVRecordIterator of rbql-py and smart_split of rbql-js and compared with what TLC computed; random long Unicode lines recorded from both ports are judged by TLC (CsvDialectTrace).',
            'Exhaustive only within the bound (quick: length<=7 for "," ; thorough: <=9); longer lines are sampled. TLC, the JSON bridge and the harness projections are trusted; the declarative dialect is my reading of the statement.',
            'TLA+ dialect spec + scanner state machine model-checked by TLC; exhaustive spec->code replay; code->spec trace validation by TLC'),
    'C12': ('5 C12, 3.8',
            'TLC explores the reader state machine (CsvReader: one step per stream.read, short reads nondeterministic, CR look-ahead its own step) for every text within the bound '
            'and proves that every delivery schedule ends in RefRead(text); each (text, policy, comment) case is then delivered to the real CSVRecordIterator under all 2^(n-1) partitions, '
            'all chunk sizes, byte-level partitions of utf-8/latin-1 encodings, with and without header, and compared with TLC\'s RefRead; recorded read-event traces of bigger random texts are validated step by step by TLC (CsvReaderTrace).',
            'Exhaustive within the bound (quick: texts <= 4 over 7 symbols; thorough: <= 6); single-character delimiter and comment prefix; TextIOWrapper (stdlib) does the incremental decoding.',
            'TLA+ reader state machine with nondeterministic short reads model-checked by TLC; exhaustive schedule replay; stepwise trace validation by TLC'),

    'C01': ('5 C01, 3.2',
            'TLC explores RbqlEngine (state machine of API events: get_record / per-match evaluation / UNNEST expansion / leaf writes) over every query of the C01 families (item lists over field, expression, literal, NR/NF, star forms, EXCEPT, 3 UNNEST forms; WHERE incl. truthiness; inner/left joins) and every small table, proving machine = Ref (declarative relational meaning), streamed output a prefix of it; every terminal case is rendered to RBQL text and run through rbql.query of the tree, rows/header/error compared with Ref; recorded events judged by TLC monitors (EngineTrace).',
            'Exhaustive only within the bounds of the MC_Engine families (tables of <= 2-4 records over 2-3 cell values, select lists of <= 2 items from the RbqlValues vocabulary); arbitrary user expressions are outside the vocabulary. TLC, the JSON bridge, the renderer (abstract query -> RBQL text) and the projections are trusted; the renderer varies interchangeable spellings.', 'TLA+ engine spec (operational machine vs declarative Ref) model-checked by TLC; exhaustive spec->code replay of TLC-emitted cases; TLC monitors over recorded events'),
    'C02': ('5 C02, 3.2',
            'Same machinery over the C02 families: ORDER BY 1-2 keys asc/desc x {none, DISTINCT, DISTINCT COUNT} x {none, TOP/LIMIT n in 0..|T|+1} x {WHERE, JOIN multi-match, UNNEST} over tables with duplicate keys; TLC proves the writer chain Sorted->Uniq|UniqCount->Top computes Take(n, Dist(Sort(base))) with DESC = reverse, checks the sort operator against the wording (permutation, non-decreasing, ties in emission order) and PullBound; replay compares rows and judges the number of get_record calls with the PullBound monitor.',
            'Exhaustive only within the bounds of the MC_Engine families (tables of <= 2-4 records over 2-3 cell values, select lists of <= 2 items from the RbqlValues vocabulary); arbitrary user expressions are outside the vocabulary. TLC, the JSON bridge, the renderer (abstract query -> RBQL text) and the projections are trusted; the renderer varies interchangeable spellings.' + ' Weak reading of "stops pulling" (stops at the record yielding the first candidate beyond the bound); termination on unbounded input follows from PullBound for inputs whose records keep reaching the TopWriter.', 'TLA+ engine spec (operational machine vs declarative Ref) model-checked by TLC; exhaustive spec->code replay of TLC-emitted cases; TLC monitors over recorded events'),
    'C04': ('5 C04, 3.2',
            'Same machinery over the join families: {inner, left, strict} x key shapes {a1==b1, NR==bNR, a2==b1, two pairs, NR==b1} x downstream {fields, star forms, WHERE on b, UNNEST, ORDER/DISTINCT/TOP, UPDATE} over tables incl. empty, duplicate-key and ragged B; Ref = declarative join expansion (Partners in B order, null partner, strict errors, missing key field errors); monitor: B is read completely before the first A record.',
            'Exhaustive only within the bounds of the MC_Engine families (tables of <= 2-4 records over 2-3 cell values, select lists of <= 2 items from the RbqlValues vocabulary); arbitrary user expressions are outside the vocabulary. TLC, the JSON bridge, the renderer (abstract query -> RBQL text) and the projections are trusted; the renderer varies interchangeable spellings.', 'TLA+ engine spec (operational machine vs declarative Ref) model-checked by TLC; exhaustive spec->code replay of TLC-emitted cases; TLC monitors over recorded events'),
    'C05': ('5 C05, 3.2',
            'Same machinery over UPDATE families: 1..2 assignments (targets a1..a3 rendered aN / a[N] / a.name / a["name"]) x rhs {literal, field, concatenation, NU} x WHERE x {no join, inner, left, strict}; Ref is declarative (each assigned field = rhs on the ORIGINAL record, others untouched, NU = count so far, assignment beyond NF errs naming record and field) while the machine copies and assigns sequentially; TLC proves them equal.',
            'Exhaustive only within the bounds of the MC_Engine families (tables of <= 2-4 records over 2-3 cell values, select lists of <= 2 items from the RbqlValues vocabulary); arbitrary user expressions are outside the vocabulary. TLC, the JSON bridge, the renderer (abstract query -> RBQL text) and the projections are trusted; the renderer varies interchangeable spellings.', 'TLA+ engine spec (operational machine vs declarative Ref) model-checked by TLC; exhaustive spec->code replay of TLC-emitted cases; TLC monitors over recorded events'),
    'C07': ('5 C07, 3.2',
            'Same machinery over header families: select lists of 1..2 items over {aN, a[N], a.name, a["name"], NR, expression, *, a.*, b.*, AS aliases, UNNEST} x {DISTINCT, DISTINCT COUNT, TOP} x {header, no header} x {join, no join}, UPDATE and EXCEPT; HeaderRef states the naming rules; invariant HeaderWidth; replay compares the header handed to the writer (names and width).',
            'Exhaustive only within the bounds of the MC_Engine families (tables of <= 2-4 records over 2-3 cell values, select lists of <= 2 items from the RbqlValues vocabulary); arbitrary user expressions are outside the vocabulary. TLC, the JSON bridge, the renderer (abstract query -> RBQL text) and the projections are trusted; the renderer varies interchangeable spellings.' + ' Column names are identifier-like here (awkward names belong to C09).', 'TLA+ engine spec (operational machine vs declarative Ref) model-checked by TLC; exhaustive spec->code replay of TLC-emitted cases; TLC monitors over recorded events'),

    'C14': ('5 C14, 3.2',
            'Same machinery over error families: a value-dependent raising ("poison") expression placed in every clause (SELECT item, WHERE, ORDER BY key, GROUP BY key, aggregate argument, UPDATE rhs, UNNEST list), UPDATE target / JOIN key beyond NF, strict-join and multi-match UPDATE errors, over tables holding the poison at every position; mistakes in the query text (= in WHERE, two SELECTs, bad LIMIT, unknown EXCEPT / UPDATE field, ORDER BY in UPDATE, two UNNESTs, aggregates under ORDER BY / DISTINCT, star + alias without header, EXCEPT + JOIN) and inconsistent input (column-name list length, join header mismatch). Ref gives class, first offending record in processing order and field; replay compares class (exception_to_error_info), record number and field parsed from the message; a TLC monitor checks that parsing errors precede any write; field-count warning numbers compared for header-less full scans of A and B.',
            ENG_NOTE + ' Warning kinds None-in-output / delimiter-in-simple-output / BOM / malformed quoting are decided with the CSV specifications (C10, C12 evidence), not here.', ENG_TECH),
    'C15': ('5 C15, 3.2, 3.8, 3.11',
            '(a) RbqlEngine with a fault plan (the leaf writer refuses from call k, k = every index) over 9 query shapes: TLC proves prefix output, the writer-protocol monitor (set_header once and first, no write after FALSE, finish exactly once iff success) and promptness (no pull after a refusal); replayed with a user writer returning False at k; (b) the real CSVWriter over a stream raising BrokenPipeError at every stream.write index: no exception, emitted text = prefix of the fault-free text, monitors judged by TLC; (c) Utf8.tla (incremental decoder = declarative decoder under every partition) model-checked, every byte string within the bound delivered to the real reader under every partition x chunk sizes, verdict by TLC (BadByteTrace: invalid => IO-handling error, valid => RefRead of the decoded text); (d) Frontends.tla (query_csv life-cycle, every raising point) model-checked for "terminated => no open handle", 26 query_csv scenarios recorded through a replaced rbql_csv.open and judged by TLC (FrontendTrace), /proc/self/fd as second witness; (e) unbounded argument for the writer protocol: RbqlEngine refines the abstraction WriterChain (TLC action property ChainRefinement in every engine run) and the inductive invariant of WriterChain (=> ~bad, m.writes an unbounded integer) is checked by Apalache (initiation, consecution, mutant rejected).',
            'Bounds: tables <= 2-3 records, byte strings <= 3-4 bytes over 15 byte values; a broken pipe is an exception-raising stream, not an OS pipe.', 'TLA+ engine spec with fault plan + UTF-8 decoder machine + front-end life-cycle machine model-checked by TLC; fault-point enumeration replayed into the code; TLC trace validation; refinement to an abstraction whose inductive invariant Apalache checks'),

    'C03': ('5 C03, 3.2',
            'Same machinery over aggregate families: the 9 aggregates (3 spellings, COUNT(*)/COUNT(1)/COUNT(x), expression arguments), group keys, constants and non-constant columns x {no GROUP BY, 1-2 keys} x WHERE x TOP over tables with a numeric column in one presentation (numeric strings incl. "1.5", ints, floats); the machine models first-record discovery of aggregate columns and per-key accumulation, Ref states each aggregate declaratively over exact rationals (population variance = mean of squares - square of mean, even/odd medians, ANY_VALUE as the set of admissible values); misuse (aggregates under ORDER BY / DISTINCT) and builtin min/max/sum with several arguments; replay compares floats with the exact rational within 1e-9 relative.',
            ENG_NOTE + ' Numeric cells are unsigned decimals; the int-vs-float type of a result is not asserted.', ENG_TECH),
    'C06': ('5 C06, 3.2, 3.11',
            'Lists and rbql-js arrays: TLC-emitted engine cases (SELECT incl. star forms / EXCEPT, UPDATE, joins, parse-error and runtime-error paths) replayed with deep snapshots compared at every writer event and identity tests of every written row, judged by the TLC monitors no_alias / sources (EngineTrace); the spec carries the action property SourcesUnchanged and the mutant alias_up_fields. pandas: the same cases as dataframes compared before/after. sqlite: hostile identifiers (all strings <= 3 over 9 characters plus injection strings) as join table in the query text and as table name; every SQL statement logged with set_trace_callback and judged by the SqlOk monitor of Frontends.tla via TLC, database file hashed. CSV files: 26 query_csv scenarios, hashes and open modes judged by the FdOk monitor.',
            'Identity (`is` / ===) and deep equality are the witnesses; bounds as for the engine families.', 'TLA+ engine spec (SourcesUnchanged action property) + front-end monitors checked by TLC; replay with snapshots; TLC-judged statement and file-handle logs'),
    'C19': ('5 C19, 3.2',
            'The TLC-emitted cases of the C01-C05, C07, C03 and C14 families (restricted to expressions that mean the same in both languages) rendered into JavaScript syntax and run through rbql-js query_table in a node batch driver; rows, header, error class and record number compared with Ref; caller arrays snapshotted and compared, output rows tested for identity with input rows.',
            ENG_NOTE + ' Expressions whose meaning differs between the languages (None + str, int("1.5")) are excluded from the JS families; the module-global query context of rbql-js (concurrent queries) is a documented limitation and not claimed.', ENG_TECH),

    'C10': ('5 C10, 3.7',
            'TLC checks CsvCodec on every table within the bound: the step-by-step writer machine emits WriteTable(T); Representable(T) (the syntactic characterisation of C10) implies that RefRead of the written text is T without warnings for every line separator, and for single-character delimiters the characterisation is tight; lossy output always sets the None / separator warning (exact for single-character delimiters). Every emitted case is replayed: the real CSVWriter of rbql-py (encodings None, utf-8, latin-1) and of rbql-js must emit exactly the text and warning flags TLC computed, the real readers must read it back as TLC\'s RefRead. Random tables over full Unicode and all 256 latin-1 code points written and read back by the real code are judged by TLC (CodecTrace).',
            'Exhaustive within the bound (1 record x <= 2 fields x <= 2-3 characters, 2 records x <= 2 fields x <= 1 character over {quote, delimiter chars, space, CR, LF, other}); comment prefix off; zero-field records are outside the statement (observation I8).',
            'TLA+ writer machine + declarative reader model-checked by TLC (round-trip theorem); exhaustive replay into both ports; TLC trace validation of random tables; written texts also read back through a 1-3 character buffer (bytes and untranslated text stream)'),
    'C18': ('5 C18',
            'Both ports are confronted with the SAME TLA+ values and with each other: every line within the bound (CsvScanner) -> smart_split (4 policies, normal and preserve), quote_field, rfc_quote_field of both ports; every text within the bound x policy x comment prefix (CsvReader/RefRead) -> Python reader and JS reader (bulk and stream); every table within the bound (CsvCodec) -> both writers must emit TLC\'s text and warnings and both readers read it back as RefRead (so a table written by either is read identically by the other); language-neutral select lists x header/no header x join -> both must produce HeaderRef\'s header; direct py == js comparison on top.',
            'Bounds as in C10 - C12; error messages compared through class and cited record/line numbers.',
            'shared TLA+ specifications model-checked by TLC; the same TLC-emitted cases replayed into both ports; direct differential comparison'),
    'C20': ('5 C20, 3.9',
            'TLC explores JsCsvReader (producer/consumer machine: OnData(n) with any n, OnEnd, GetRecord in any interleaving; streaming decoder pending bytes, partial line, CR flag, multi-line aggregator, record queue, stored exception) for every byte string within the bound and proves the consumer receives RefRead(Decode(bytes)) and that valid UTF-8 is never rejected; every emitted case is delivered to the real rbql-js CSVRecordIterator through a hand-pushed Readable under all 2^(n-1) partitions x {consumer first, producer first, all input before the first get_record} and in bulk mode; five files > 64 KiB with a multi-byte character / CRLF / quoted multi-line field straddling byte 65536 go through fs.createReadStream.',
            'Exhaustive within the bound (quick: <= 4 bytes over 6 ASCII symbols, <= 3 over 13 byte values; thorough <= 6 / <= 4); single-character delimiter and comment prefix.',
            'TLA+ producer/consumer reader machine model-checked by TLC; exhaustive partition x interleaving replay into rbql-js'),

    'C13': ('5 C13, 3.11',
            'TLC computes Ref and its text rendering (Stringify: ints in decimal, None as empty) for type-agnostic queries over rectangular string tables (fields, literals, concatenation, comparisons, star forms, ORDER / DISTINCT / TOP, COUNT + GROUP BY, EXCEPT, UPDATE, joins, failing queries) x header yes/no; every case is run through query (recording iterator/writer), query_table, query_csv (files), python -m rbql from the tree (file->file and stdin->stdout, out-format input / csv / tsv; every k-th case), query_dataframe (pandas) and the sqlite iterator + query_sqlite_to_csv; each result is compared with the TLA+ value (hence with each other); command-line runs are judged by the CliOk monitor of Frontends.tla through TLC (exit 0 and only table data on stdout and only Warning lines on stderr on success; non-zero exit and an Error [type] line on failure). Also: join cases with both tables sharing their column names (query_table, pandas), pandas with duplicated labels, five environment faults of the command line, and Pipeline.tla - query_csv at the level of text as the composition RefRead ; query ; WriteTable (theorem ReReadable model-checked) over every input text up to the bound x input / output dialects x header, replayed through the real query_csv with different input and output delimiters.',
            'In the engine families cell strings are CSV-inert (letters, digits), so output text is split on the delimiter without dialect logic in the harness (the text pipeline covers quotes, delimiters, spaces and line breaks in cells for two queries); pandas and sqlite need column names (header cases only); the adapters are exercised by replay, not modelled internally.',
            'TLA+ engine spec + front-end monitors checked by TLC; one TLC-computed expectation replayed through seven entry points; TLC-judged command-line outcomes'),
    'C17': ('5 C17, 3.10',
            'TLC checks Like.tla: a position-set automaton stepping over the text equals the declarative LikeRef for every pattern/text pair of length <= 4 (quick) / <= 5 (thorough) over {%, _, x, y}, with an invariant on every intermediate state set; every pair is instantiated with ordered pairs from 23 characters (all regex metacharacters, quotes, space, non-ASCII, astral) in rotation and evaluated as `select like(a1, a2)` through query_table of rbql-py and rbql-js and through like_to_regex + re; random longer Unicode pairs evaluated by both ports are judged by TLC (LikeTrace).',
            'Single-line texts (as quantified); characters other than % and _ are treated as interchangeable in the exhaustive part (the rotation and the random traces exercise that).',
            'TLA+ LIKE automaton vs declarative matcher model-checked by TLC; exhaustive replay with metacharacter rotation; TLC trace validation'),

    'C16': ('5 C16, 3.3',
            'TLC explores RbqlIsolation: two instances of RbqlEngine over disjoint variables taking steps in every interleaving, for all 81 pairs of 9 query kinds (plain, top, sorted, distinct count, aggregate, unnest, update, runtime-failing, parse-failing) over tables of <= 2 (quick) / <= 3 (thorough) records; invariant: each engine ends with its solo Ref; the mutant in which both engines share one query context (unnest list, aggregation stage: the rbql-js architecture) is rejected. For chosen pairs TLC enumerates every schedule of observable API events (history variable, one terminal state per schedule) and tlc -simulate samples schedules over all pairs; each is replayed with two real threads under a cooperative scheduler that releases exactly one thread per iterator / writer call, and both results are compared with TLC\'s solo results. Histories of <= 6 queries (succeeding, parse-failing, runtime-failing) run in one interpreter and single queries in fresh interpreters are compared with Ref.',
            'Interleaving points are the iterator / writer calls; Python port only (rbql-js keeps a module-global context, documented limitation); schedules exhaustive for 3 (quick) / 7 (thorough) pairs with tables of 2 records, sampled otherwise.',
            'TLA+ composition of two engine instances model-checked by TLC over all interleavings; TLC-generated schedules replayed with real threads under a deterministic scheduler; query histories (including user-init-code histories, sequential and with the second query run in another thread between two reads) compared with the solo result from a fresh process (the NonInterference statement of RbqlIsolation)'),

    'C08': ('5 C08, 3.4',
            'TLC checks QueryText.tla: a word-level shallow-parser machine (keywords matched case-insensitively and longest first within their group, TOP / DISTINCT [COUNT] / SET / FROM a / ASC / DESC / LIMIT handling, comment lines, trailing semicolon, literals skipped as opaque units) applied to Render(q, sigma) gives Actions(q) for every abstract query (head + <= 3 further clauses in any order) and every spelling sigma, with literal contents made of RBQL keywords and metacharacters. Every rendering is turned into text (varying white space) and parsed by the real cleanup_query / separate_string_literals / remove_redundant_input_table_name / separate_actions; the action map must be the one TLC computed. End to end: RbqlEngine cases whose literals hold hostile contents (keywords, "order by a1 desc", "*,=#;()[]", variable-like text, both quotes and a backslash, " left join b on ", "limit 1;", "with (header)") in SELECT items, WHERE, ORDER BY key, UPDATE rhs, UNNEST list and GROUP BY key are rendered under several spellings and run through rbql-py and rbql-js; every result must equal Ref (the literal arrives verbatim).',
            'Bounds: 6 heads x 11 clauses, <= 3 further clauses; 8 hostile literal contents; spellings sampled deterministically per case (5 py + 2 js in quick). The parser binding uses separate_actions etc. when present (Python). Known finding D9 (literal containing an a.ident token with a header) is reported as KNOWN-FINDING.',
            'TLA+ word-level parser machine model-checked by TLC (spelling invariance theorem); TLC-generated renderings parsed by the real shallow parser; spelling-varied engine replay against Ref'),
    'C09': ('5 C09, 3.5',
            'TLC checks Names.tla: Unescape(Escape(name, q)) = name and the escaped text is a well-formed literal body for every name within the bound over 16 character classes (letter, digit, _, space, both quotes, backslash, brackets, TAB, LF, CR, ., non-ASCII, punctuation, the letter n) plus a punctuation / non-BMP alphabet; the header / no-header machine (caller flag x WITH (header|headers|noheader|noheaders)) never emits the header line in header mode. Every (name, quote style, column position) case is used as a real column name through the list (normalized and direct), pandas, sqlite (quoted identifier) and CSV (header line = TLC\'s RfcQuoteField rendering) back-ends and referenced as a["<TLC\'s escaped text>"] / a[\'..\'] / a.name / bare name: the query must return exactly that column with NR = 1..n and never the header line; caller flag x modifier cases run through query_csv for the input and the join table.',
            'Names <= 2 (quick) / <= 3 (thorough) characters, headers of two columns (the name at either position); names containing an a.ident / b.ident token excluded as the quantifier says; names with CR are not used as CSV header cells. ReaderApi: tables of <= 3 lines with 1..2 fields, histories of 3 (quick) / 4 (thorough) calls, invariants alone up to 4 lines and 5 calls in the thorough tier; direct-mode names spelled like positional variables (a3 in position 1, b1 in position 2 of the join table) are a fixed list of headers.',
            'TLA+ escaping functions + header state machine model-checked by TLC; exhaustive replay of TLC-escaped references through four back-ends; TLA+ sequential-object spec of the record iterator (ReaderApi: every call history, NoLossNoDup / HeaderStable / EofTruthful / WarningsOfPrefix) model-checked by TLC and every history replayed into CSVRecordIterator and SqliteRecordIterator'),
}

PENDING_REASON = 'check not built yet in this session (specification work in progress; see DESIGN.md section 5 for the plan)'


def build():
    checks = []
    for pid in ALL:
        if pid not in CLAIMED:
            continue
        ref, text, note, tech = CLAIMED[pid]
        if pid in ('C01', 'C02', 'C04', 'C05'):
            text += ' The core families are also rendered into JavaScript and run through rbql-js query_table (rbql-js/rbql.js is an anchor of this property; C19 runs all families), and a random cross product of every query kind x join x fault plan (tlc -simulate, seeded by VERIF_SEED) is replayed in both tiers.'
        checks.append({
            'property_id': pid,
            'quick_cmd': './check %s --tier quick' % pid,
            'thorough_cmd': './check %s --tier thorough' % pid,
            'evidence_file': 'evidence/%s.json' % pid,
            'replay_cmd_template': './check %s --replay {path}' % pid,
            'engine': 'tlc',
            'level_claimed': {'category': 'model_checking', 'text': text, 'design_ref': 'DESIGN.md section ' + ref},
            'level_note': note,
            'technique': tech,
        })
    man = {
        'version': 1,
        'setup_cmd': './check setup',
        'hooks': {
            'guard': 'RBQL_VERIF',
            'enable': 'no source hooks: recorders wrap the public iterator/writer/stream interfaces; the guard name is reserved',
            'baseline_off_cmd': 'cd /repo && /venv/bin/python -m pytest -ra -q -p no:cacheprovider --timeout=900 --continue-on-collection-errors',
            'source_commits': [],
            'add_only': True,
        },
        'engines': [
            {'name': 'tlc', 'path': 'spec/', 'serves_properties': sorted(CLAIMED),
             'kind_free_text': 'explicit TLA+ specifications checked by TLC 1.8; conformance by replay of TLC-emitted cases into /repo code and TLC validation of recorded executions'},
            {'name': 'apalache', 'path': 'spec/WriterChainInd.tla', 'serves_properties': ['C15'],
             'kind_free_text': 'Apalache 0.58: inductive invariant of the writer-protocol abstraction WriterChain (unbounded number of writes); the engine specification refines WriterChain (checked by TLC)'},
        ],
        'checks': checks,
        'not_applicable': [{'property_id': p, 'reason': PENDING_REASON} for p in ALL if p not in CLAIMED],
        'notes': 'Single entry point ./check <id> [--tier quick|thorough] [--replay path]. Exit 0 held / 1 VIOLATION / 2 machinery failure (an exception or hang INSIDE the implementation during a check is a VIOLATION). known_findings.jsonl lists fixed defects and recorded findings. ./check EXT runs the extensions of the specification beyond the listed properties (DESIGN 11.1; EXTENSION-MISMATCH, not a claimed property). spec/README.md + spec/cfg/: every specification can be model-checked by hand. seeded/ (142 seeded breaking changes from independent sub-agents, with REGRESSION.json) and controls/ (24 property-preserving changes) are the evaluation of the checks themselves.',
    }
    return man


def main():
    man = build()
    path = os.path.join(HERE, 'MANIFEST.json')
    with open(path, 'w') as f:
        json.dump(man, f, indent=1)
        f.write('\n')
    try:
        import jsonschema
        schema = json.load(open('/root/.vp/MANIFEST.schema.json'))
        jsonschema.validate(man, schema)
        print('MANIFEST.json valid;', len(man['checks']), 'checks,', len(man['not_applicable']), 'not claimed')
    except ImportError:
        print('MANIFEST.json written (jsonschema not importable here, not validated)')


if __name__ == '__main__':
    main()
