#!/usr/bin/env python3
"""Regenerate /verif/MANIFEST.json from the table below and validate it (run with python3-vt for schema validation)."""
import json
import os
import sys

HERE = os.path.dirname(os.path.dirname(os.path.abspath(__file__)))

ALL = ['C%02d' % i for i in range(1, 21)]

# property -> (design section, text of the level claimed, note / trusted base, technique)
CLAIMED = {
    'C11': ('5 C11, 3.6',
            'TLC proves, for every line within the bound over {quote, delimiter chars, space, other}, that the scanner automaton (CsvScanner) computes the '
            'declarative dialect (CsvDialect) and that preserve-mode spans re-join to the line; every such line is then replayed into smart_split and '
            'CSVRecordIterator of rbql-py and smart_split of rbql-js and compared with what TLC computed; random long Unicode lines recorded from both ports are judged by TLC (CsvDialectTrace).',
            'Exhaustive only within the bound (quick: length<=7 for "," ; thorough: <=9); longer lines are sampled. TLC, the JSON bridge and the harness projections are trusted; the declarative dialect is my reading of the statement.',
            'TLA+ dialect spec + scanner state machine model-checked by TLC; exhaustive spec->code replay; code->spec trace validation by TLC'),
    'C12': ('5 C12, 3.8',
            'TLC explores the reader state machine (CsvReader: one step per stream.read, short reads nondeterministic, CR look-ahead its own step) for every text within the bound '
            'and proves that every delivery schedule ends in RefRead(text); each (text, policy, comment) case is then delivered to the real CSVRecordIterator under all 2^(n-1) partitions, '
            'all chunk sizes, byte-level partitions of utf-8/latin-1 encodings, with and without header, and compared with TLC\'s RefRead; recorded read-event traces of bigger random texts are validated step by step by TLC (CsvReaderTrace).',
            'Exhaustive within the bound (quick: texts <= 4 over 7 symbols; thorough: <= 6); single-character delimiter and comment prefix; TextIOWrapper (stdlib) does the incremental decoding.',
            'TLA+ reader state machine with nondeterministic short reads model-checked by TLC; exhaustive schedule replay; stepwise trace validation by TLC'),
}

PENDING_REASON = 'check not built yet in this session (specification work in progress; see DESIGN.md section 5 for the plan)'


def build():
    checks = []
    for pid in ALL:
        if pid not in CLAIMED:
            continue
        ref, text, note, tech = CLAIMED[pid]
        checks.append({
            'property_id': pid,
            'quick_cmd': './check %s --tier quick' % pid,
            'thorough_cmd': './check %s --tier thorough' % pid,
            'evidence_file': 'evidence/%s.json' % pid,
            'replay_cmd_template': './check %s --replay {path}' % pid,
            'engine': 'tlc',
            'level_claimed': {'category': 'model_checking', 'text': text, 'design_ref': 'DESIGN.md section ' + ref},
            'level_note': note,
            'technique': tech,
        })
    man = {
        'version': 1,
        'setup_cmd': './check setup',
        'hooks': {
            'guard': 'RBQL_VERIF',
            'enable': 'no source hooks: recorders wrap the public iterator/writer/stream interfaces; the guard name is reserved',
            'baseline_off_cmd': 'cd /repo && /venv/bin/python -m pytest -ra -q -p no:cacheprovider --timeout=900 --continue-on-collection-errors',
            'source_commits': [],
            'add_only': True,
        },
        'engines': [
            {'name': 'tlc', 'path': 'spec/', 'serves_properties': sorted(CLAIMED),
             'kind_free_text': 'explicit TLA+ specifications checked by TLC 1.8; conformance by replay of TLC-emitted cases into /repo code and TLC validation of recorded executions'},
        ],
        'checks': checks,
        'not_applicable': [{'property_id': p, 'reason': PENDING_REASON} for p in ALL if p not in CLAIMED],
        'notes': 'Single entry point ./check <id> [--tier quick|thorough] [--replay path]. Exit 0 held / 1 VIOLATION / 2 machinery failure. known_findings.jsonl lists fixed defects and recorded findings.',
    }
    return man


def main():
    man = build()
    path = os.path.join(HERE, 'MANIFEST.json')
    with open(path, 'w') as f:
        json.dump(man, f, indent=1)
        f.write('\n')
    try:
        import jsonschema
        schema = json.load(open('/root/.vp/MANIFEST.schema.json'))
        jsonschema.validate(man, schema)
        print('MANIFEST.json valid;', len(man['checks']), 'checks,', len(man['not_applicable']), 'not claimed')
    except ImportError:
        print('MANIFEST.json written (jsonschema not importable here, not validated)')


if __name__ == '__main__':
    main()
