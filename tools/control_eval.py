#!/usr/bin/env python3
"""Negative controls: a change that PRESERVES the properties is applied to /repo, the given quick checks are run, the change is undone.
Any VIOLATION line is a false alarm of the machinery.  Stores /verif/controls/<tag>/ {patch.diff, meta.json}.

usage: tools/control_eval.py <worktree> <k> <tag> --checks C01,C04,..."""
import argparse
import json
import os
import shutil
import subprocess
import sys

VERIF = os.path.dirname(os.path.dirname(os.path.abspath(__file__)))


def sh(cmd, cwd=None, timeout=3600):
    p = subprocess.run(cmd, shell=True, cwd=cwd, stdout=subprocess.PIPE, stderr=subprocess.STDOUT, universal_newlines=True, timeout=timeout)
    return p.returncode, p.stdout


def main():
    ap = argparse.ArgumentParser()
    ap.add_argument('worktree')
    ap.add_argument('k')
    ap.add_argument('tag')
    ap.add_argument('--checks', required=True)
    a = ap.parse_args()
    out = os.path.join(a.worktree, 'out')
    diff = os.path.join(out, 'control_%s.diff' % a.k)
    meta = json.load(open(os.path.join(out, 'meta_%s.json' % a.k)))
    rc, o = sh('git -C /repo status --porcelain')
    assert o.strip() == '', '/repo not clean: ' + o
    rc, o = sh('git -C /repo apply %s' % diff)
    assert rc == 0, 'patch does not apply: ' + o
    results = {}
    try:
        for c in a.checks.split(','):
            rc, o = sh('./check %s' % c, cwd=VERIF, timeout=7200)
            lines = [l for l in o.split('\n') if l.startswith('VIOLATION') or l.startswith('MACHINERY') or l.startswith('KNOWN-FINDING')]
            hist = [l.strip() for l in o.split('\n') if ' x ' in l][:6]
            results[c] = {'exit': rc, 'lines': [l[:200] for l in lines[:5]], 'histogram': hist, 'last': o.strip().split('\n')[-1][:200]}
            print(a.tag, c, 'exit', rc, hist[:3], flush=True)
    finally:
        sh('git -C /repo checkout -- .')
        sh('git -C /repo clean -fdq')
    dst = os.path.join(VERIF, 'controls', a.tag)
    os.makedirs(dst, exist_ok=True)
    shutil.copy(diff, os.path.join(dst, 'patch.diff'))
    meta['checks_run'] = results
    meta['false_alarms'] = sorted(c for c, r in results.items() if r['exit'] != 0)
    json.dump(meta, open(os.path.join(dst, 'meta.json'), 'w'), indent=1)
    print('stored', dst, 'false alarms:', meta['false_alarms'])


if __name__ == '__main__':
    main()
