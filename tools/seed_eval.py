#!/usr/bin/env python3
"""Evaluate a seeded change produced by an independent sub-agent (never committed to /repo).

usage: seed_eval.py <PROP> <k> [--checks C01,C06] [--worktree /tmp/wt_C01]

1. confirm in the scratch worktree: patch applies, demonstration fails with it and passes without it,
   the pinned suite still gives 45 passed;
2. apply the patch to /repo, run the quick checks, undo it (git checkout -- .);
3. store /verif/seeded/<PROP>_<k>/ {patch.diff, demo.*, meta.json}.
"""
import argparse
import glob
import json
import os
import re
import shutil
import subprocess
import sys
import time

VERIF = os.path.dirname(os.path.dirname(os.path.abspath(__file__)))


def sh(cmd, cwd=None, timeout=3600):
    p = subprocess.run(cmd, shell=True, cwd=cwd, stdout=subprocess.PIPE, stderr=subprocess.STDOUT, universal_newlines=True, timeout=timeout)
    return p.returncode, p.stdout


def main():
    ap = argparse.ArgumentParser()
    ap.add_argument('prop')
    ap.add_argument('k')
    ap.add_argument('--checks', default=None)
    ap.add_argument('--worktree', default=None)
    ap.add_argument('--skip-confirm', action='store_true')
    ap.add_argument('--tag', default=None, help='name of the directory under seeded/ (default <PROP>_<k>)')
    a = ap.parse_args()
    wt = a.worktree or '/tmp/wt_%s' % a.prop
    out = os.path.join(wt, 'out')
    diff = os.path.join(out, 'mutation_%s.diff' % a.k)
    demos = glob.glob(os.path.join(out, 'demo_%s.*' % a.k))
    meta_in = os.path.join(out, 'meta_%s.json' % a.k)
    assert os.path.exists(diff) and demos, 'missing deliverables'
    demo = demos[0]
    runner = 'node' if demo.endswith('.js') else ('bash' if demo.endswith('.sh') else '/venv/bin/python -W ignore')
    meta = {'property': a.prop, 'k': a.k}
    if os.path.exists(meta_in):
        try:
            meta.update(json.load(open(meta_in)))
        except ValueError:
            pass
    confirm = {}
    if not a.skip_confirm:
        rc, o = sh('git status --porcelain --untracked-files=no', cwd=wt)
        assert o.strip() == '', 'worktree not clean: ' + o
        rc, o = sh('git apply --check %s && git apply %s' % (diff, diff), cwd=wt)
        assert rc == 0, 'patch does not apply in the worktree: ' + o
        rc1, o1 = sh('%s %s' % (runner, demo), cwd=wt)
        confirm['demo_with_change_exit'] = rc1
        rc2, o2 = sh('/venv/bin/python -m pytest -q -p no:cacheprovider --timeout=900 --continue-on-collection-errors 2>&1 | tail -1', cwd=wt)
        confirm['pinned_suite_with_change'] = o2.strip()
        sh('git checkout -- . && rm -f output.csv test/python_column_infos.txt test/js_column_infos.txt', cwd=wt)
        rc3, o3 = sh('%s %s' % (runner, demo), cwd=wt)
        confirm['demo_without_change_exit'] = rc3
        ok = rc1 != 0 and rc3 == 0 and '45 passed' in o2
        confirm['confirmed'] = ok
        print('confirm:', confirm)
        if not ok:
            print('NOT CONFIRMED - not kept\n', o1[-600:], o3[-600:])
            return 1
    # apply to /repo, run the checks, undo
    rc, o = sh('git status --porcelain --untracked-files=no', cwd='/repo')
    assert o.strip() == '', '/repo not clean: ' + o
    rc, o = sh('git apply --check %s' % diff, cwd='/repo')
    if rc != 0:
        rc, o = sh('git apply --3way --check %s' % diff, cwd='/repo')
        print('patch does not apply to /repo HEAD (%s)' % o.strip()[:200])
        meta['applies_to_repo_head'] = False
        return 1
    checks = (a.checks or a.prop).split(',')
    results = {}
    try:
        sh('git apply %s' % diff, cwd='/repo')
        for c in checks:
            t0 = time.time()
            rc, o = sh('./check %s --tier quick' % c, cwd=VERIF, timeout=7200)
            viol = [l for l in o.split('\n') if l.startswith('VIOLATION')]
            hist = [l.strip() for l in o.split('\n') if re.match(r'^\s+\d+ x ', l)][:6]
            results[c] = {'exit': rc, 'violation_lines': len(viol), 'top_signatures': hist, 'wall_s': round(time.time() - t0, 1)}
            print(c, '-> exit', rc, len(viol), 'VIOLATION lines', hist[:2])
            if rc not in (0, 1):
                print(o[-1500:])
    finally:
        sh('git checkout -- .', cwd='/repo')
        shutil.rmtree(os.path.join(VERIF, 'replays'), ignore_errors=True)
    sh('git checkout -- evidence', cwd=VERIF)
    dst = os.path.join(VERIF, 'seeded', a.tag or '%s_%s' % (a.prop, a.k))
    os.makedirs(dst, exist_ok=True)
    shutil.copy(diff, os.path.join(dst, 'patch.diff'))
    text = open(demo).read().replace(wt, '/repo')
    with open(os.path.join(dst, 'demo' + os.path.splitext(demo)[1]), 'w') as f:
        f.write(text)
    meta['breaks_property'] = a.prop
    prev = {}
    if os.path.exists(os.path.join(dst, 'meta.json')):
        prev = json.load(open(os.path.join(dst, 'meta.json')))
    meta['confirmation'] = confirm or prev.get('confirmation', {})
    hist = prev.get('history', [])
    if prev.get('checks_run'):
        hist.append({'detected_by': prev.get('detected_by'), 'checks_run': {c: {'exit': r['exit']} for c, r in prev['checks_run'].items()}})
    meta['history'] = hist
    meta['checks_run'] = results
    meta['detected_by'] = sorted(c for c, r in results.items() if r['exit'] == 1)
    meta['ran'] = 'tools/seed_eval.py %s %s --checks %s (patch applied to /repo with git apply, quick tier, undone with git checkout -- .); demonstration rewritten to import /repo' % (a.prop, a.k, ','.join(checks))
    with open(os.path.join(dst, 'meta.json'), 'w') as f:
        json.dump(meta, f, indent=1)
    print('stored', dst, 'detected_by', meta['detected_by'])
    return 0


if __name__ == '__main__':
    sys.exit(main())
