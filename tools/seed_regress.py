#!/usr/bin/env python3
"""Regression over all kept seeds: apply each /verif/seeded/<tag>/patch.diff to /repo, run the quick check of its property, undo.
Writes /verif/seeded/REGRESSION.json: tag -> {property, exit, expected}.  A seed whose meta.json has an `assessment` (accepted by design) is
expected to pass (exit 0); every other one is expected to be reported (exit 1)."""
import glob
import json
import os
import subprocess
import sys

VERIF = os.path.dirname(os.path.dirname(os.path.abspath(__file__)))


def sh(cmd, cwd=None, timeout=7200):
    p = subprocess.run(cmd, shell=True, cwd=cwd, stdout=subprocess.PIPE, stderr=subprocess.STDOUT, universal_newlines=True, timeout=timeout)
    return p.returncode, p.stdout


def main():
    only = sys.argv[1:]
    res = {}
    outp = os.path.join(VERIF, 'seeded', 'REGRESSION.json')
    if os.path.exists(outp):
        res = json.load(open(outp))
    for d in sorted(glob.glob(os.path.join(VERIF, 'seeded', '*_*'))):
        tag = os.path.basename(d)
        if not os.path.isdir(d) or (only and tag not in only) or (not only and tag in res):
            continue
        meta = json.load(open(os.path.join(d, 'meta.json')))
        prop = meta.get('property') or tag.split('_')[0]
        checks = meta.get('detected_by') or [prop]
        rc, o = sh('git -C /repo status --porcelain')
        assert o.strip() == '', '/repo not clean'
        rc, o = sh('git -C /repo apply %s' % os.path.join(d, 'patch.diff'))
        if rc != 0:
            rc, o = sh('git -C /repo apply --3way %s' % os.path.join(d, 'patch.diff'))
        if rc != 0:
            res[tag] = {'property': prop, 'exit': None, 'note': 'patch no longer applies: ' + o[-200:]}
            sh('git -C /repo checkout -- .')
            sh('git -C /repo reset -q')
            continue
        try:
            c = checks[0]
            rc, o = sh('./check %s' % c, cwd=VERIF)
            res[tag] = {'property': prop, 'check': c, 'exit': rc, 'expected': 0 if meta.get('assessment') and not meta.get('detected_by') else 1,
                        'last': o.strip().split('\n')[-1][:160]}
        finally:
            sh('git -C /repo reset -q')
            sh('git -C /repo checkout -- .')
            sh('git -C /repo clean -fdq')
        print(tag, res[tag].get('exit'), res[tag].get('expected'), flush=True)
        json.dump(res, open(outp, 'w'), indent=1, sort_keys=True)
    bad = [t for t, r in res.items() if r.get('exit') != r.get('expected')]
    print('REGRESSION DONE; unexpected:', bad)


if __name__ == '__main__':
    main()
