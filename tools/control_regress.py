#!/usr/bin/env python3
"""Re-apply kept negative controls (/verif/controls/<tag>/patch.diff) to /repo and re-run the checks recorded for them: all must exit 0.
usage: tools/control_regress.py [tag ...]   (default: all)   -> controls/REGRESSION.json"""
import glob
import json
import os
import subprocess
import sys

VERIF = os.path.dirname(os.path.dirname(os.path.abspath(__file__)))


def sh(cmd, cwd=None, timeout=7200):
    p = subprocess.run(cmd, shell=True, cwd=cwd, stdout=subprocess.PIPE, stderr=subprocess.STDOUT, universal_newlines=True, timeout=timeout)
    return p.returncode, p.stdout


def main():
    only = sys.argv[1:]
    outp = os.path.join(VERIF, 'controls', 'REGRESSION.json')
    res = json.load(open(outp)) if os.path.exists(outp) else {}
    for d in sorted(glob.glob(os.path.join(VERIF, 'controls', 'N*_*'))):
        tag = os.path.basename(d)
        if only and tag not in only:
            continue
        meta = json.load(open(os.path.join(d, 'meta.json')))
        rc, o = sh('git -C /repo status --porcelain')
        assert o.strip() == '', '/repo not clean'
        rc, o = sh('git -C /repo apply %s' % os.path.join(d, 'patch.diff'))
        if rc != 0:
            res[tag] = {'note': 'patch no longer applies'}
            continue
        try:
            r = {}
            for c in sorted(meta['checks_run']):
                rc, o = sh('./check %s' % c, cwd=VERIF)
                r[c] = rc
                print(tag, c, rc, flush=True)
            res[tag] = r
        finally:
            sh('git -C /repo checkout -- .')
            sh('git -C /repo clean -fdq')
        json.dump(res, open(outp, 'w'), indent=1, sort_keys=True)
    bad = {t: r for t, r in res.items() if any(v != 0 for v in r.values() if isinstance(v, int))}
    print('CONTROL REGRESSION DONE; alarms:', bad)


if __name__ == '__main__':
    main()
