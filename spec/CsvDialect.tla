----------------------------- MODULE CsvDialect -----------------------------
(***************************************************************************)
(* The CSV dialect of RBQL (properties C11, C10, C18).                     *)
(*                                                                         *)
(* This module is the declarative dialect, worded as C11 words it; it has  *)
(* no constants and no state.  CsvScanner.tla is the same dialect as a     *)
(* state machine (TLC proves them equal within bounds and emits replay     *)
(* cases); CsvDialectTrace.tla judges recorded executions of the real      *)
(* splitters with these operators; CsvCodec / CsvReader build on them.     *)
(*                                                                         *)
(* Text is Seq(Int) of code points (R2); 34 is the double quote, 32 the    *)
(* space; a delimiter is a non-empty Seq(Int).                             *)
(***************************************************************************)
EXTENDS Naturals, Sequences, TLC, Json

Q  == 34
SP == 32

--------------------------------------------------------------------------
(* Part 1: declarative dialect *)

StartsWith(s, p, d) == p + Len(d) - 1 <= Len(s) /\ \A k \in 1..Len(d) : s[p + k - 1] = d[k]

RECURSIVE FindFrom(_, _, _)
\* first position >= p at which d occurs in s, Len(s)+1 if there is none
FindFrom(s, p, d) == IF p + Len(d) - 1 > Len(s) THEN Len(s) + 1
                     ELSE IF StartsWith(s, p, d) THEN p ELSE FindFrom(s, p + 1, d)

RECURSIVE SkipSp(_, _)
SkipSp(s, p) == IF p <= Len(s) /\ s[p] = SP THEN SkipSp(s, p + 1) ELSE p

Contains(s, c) == \E k \in 1..Len(s) : s[k] = c

RECURSIVE JoinBy(_, _)
JoinBy(fs, d) == IF fs = <<>> THEN <<>> ELSE IF Len(fs) = 1 THEN fs[1] ELSE fs[1] \o d \o JoinBy(Tail(fs), d)

\* simple policy: plain split on non-overlapping leftmost occurrences
RECURSIVE SplitPlain(_, _, _)
SplitPlain(s, p, d) == LET u == FindFrom(s, p, d) IN
                       IF u = Len(s) + 1 THEN << SubSeq(s, p, Len(s)) >>
                       ELSE << SubSeq(s, p, u - 1) >> \o SplitPlain(s, u + Len(d), d)

\* whitespace policy: the maximal runs of non-space characters
RECURSIVE SplitWs(_, _)
SplitWs(s, p) == LET a == SkipSp(s, p) IN
                 IF a > Len(s) THEN <<>>
                 ELSE LET e == FindFrom(s, a, <<SP>>) IN << SubSeq(s, a, e - 1) >> \o SplitWs(s, e)

\* whitespace policy, whitespace-preserving variant: each field keeps the spaces around it except the one separating space
RECURSIVE SplitWsRaw(_, _)
SplitWsRaw(s, p) == LET a == SkipSp(s, p) IN
                    IF a > Len(s) THEN <<>>
                    ELSE LET e  == FindFrom(s, a, <<SP>>)
                             e2 == SkipSp(s, e)
                         IN IF e2 > Len(s) THEN << SubSeq(s, p, Len(s)) >>
                            ELSE << SubSeq(s, p, e2 - 2) >> \o SplitWsRaw(s, e2)

\* inner text of a quoted field: "" stands for "
RECURSIVE Unesc(_)
Unesc(s) == IF s = <<>> THEN <<>>
            ELSE IF Len(s) >= 2 /\ s[1] = Q /\ s[2] = Q THEN <<Q>> \o Unesc(SubSeq(s, 3, Len(s)))
            ELSE <<s[1]>> \o Unesc(Tail(s))

\* the closing quote of a field whose opening quote precedes position i: inner quotes come in pairs,
\* so it is the last quote of the first odd-length run of quotes; 0 if there is none
RECURSIVE Closing(_, _)
Closing(s, i) == IF i > Len(s) THEN 0
                 ELSE IF s[i] # Q THEN Closing(s, i + 1)
                 ELSE IF i + 1 <= Len(s) /\ s[i + 1] = Q THEN Closing(s, i + 2) ELSE i

SpacesAllowed(d) == d # <<SP>>

\* Is the field that starts at p a quoted field?  a = opening quote, c = closing quote, e = first position after the field
QuotedAt(s, p, d) ==
    LET a == IF SpacesAllowed(d) THEN SkipSp(s, p) ELSE p IN
    IF a > Len(s) \/ s[a] # Q THEN [ok |-> FALSE, a |-> 0, c |-> 0, e |-> 0]
    ELSE LET c == Closing(s, a + 1) IN
         IF c = 0 THEN [ok |-> FALSE, a |-> a, c |-> 0, e |-> 0]
         ELSE LET e == IF SpacesAllowed(d) THEN SkipSp(s, c + 1) ELSE c + 1 IN
              [ok |-> (e = Len(s) + 1 \/ StartsWith(s, e, d)), a |-> a, c |-> c, e |-> e]

\* quoted / quoted_rfc policies.  One record per field: f = value, raw = the span as written, w = unquoted field holding a quote
RECURSIVE SplitQ(_, _, _)
SplitQ(s, p, d) ==
    IF p = Len(s) + 1 THEN << [f |-> <<>>, raw |-> <<>>, w |-> FALSE] >>
    ELSE LET q == QuotedAt(s, p, d) IN
         IF q.ok
         THEN << [f |-> Unesc(SubSeq(s, q.a + 1, q.c - 1)), raw |-> SubSeq(s, p, q.e - 1), w |-> FALSE] >>
              \o (IF q.e = Len(s) + 1 THEN <<>> ELSE SplitQ(s, q.e + Len(d), d))
         ELSE LET u == FindFrom(s, p, d)
                  f == SubSeq(s, p, u - 1)
              IN << [f |-> f, raw |-> f, w |-> Contains(f, Q)] >>
                 \o (IF u = Len(s) + 1 THEN <<>> ELSE SplitQ(s, u + Len(d), d))

QFields(s, d) == LET r == SplitQ(s, 1, d) IN [k \in 1..Len(r) |-> r[k].f]
QRaw(s, d)    == LET r == SplitQ(s, 1, d) IN [k \in 1..Len(r) |-> r[k].raw]
QWarn(s, d)   == LET r == SplitQ(s, 1, d) IN \E k \in 1..Len(r) : r[k].w

\* What the documented dialect prescribes for a line under every policy (a space delimiter is the
\* only delimiter the whitespace policy is defined for).
RefSplit(s, d, policy) ==
    CASE policy = "simple"     -> [fields |-> SplitPlain(s, 1, d), warn |-> FALSE]
      [] policy = "whitespace" -> [fields |-> SplitWs(s, 1), warn |-> FALSE]
      [] policy = "monocolumn" -> [fields |-> <<s>>, warn |-> FALSE]
      [] OTHER                 -> [fields |-> QFields(s, d), warn |-> QWarn(s, d)]

RefPreserve(s, d, policy) ==
    CASE policy = "simple"     -> SplitPlain(s, 1, d)
      [] policy = "whitespace" -> SplitWsRaw(s, 1)
      [] policy = "monocolumn" -> <<s>>
      [] OTHER                 -> QRaw(s, d)

\* writer side of the dialect (C10, C18)
RECURSIVE DoubleQ(_)
DoubleQ(s) == IF s = <<>> THEN <<>> ELSE IF s[1] = Q THEN <<Q, Q>> \o DoubleQ(Tail(s)) ELSE <<s[1]>> \o DoubleQ(Tail(s))

HasSub(s, d) == FindFrom(s, 1, d) <= Len(s)

QuoteField(s, d)    == IF Contains(s, Q) THEN <<Q>> \o DoubleQ(s) \o <<Q>>
                       ELSE IF HasSub(s, d) THEN <<Q>> \o s \o <<Q>> ELSE s
RfcQuoteField(s, d) == IF Contains(s, Q) THEN <<Q>> \o DoubleQ(s) \o <<Q>>
                       ELSE IF HasSub(s, d) \/ Contains(s, 10) \/ Contains(s, 13) THEN <<Q>> \o s \o <<Q>> ELSE s

=============================================================================
