----------------------------- MODULE ReaderApi -----------------------------
(***************************************************************************)
(* The record-level API of rbql_csv.CSVRecordIterator as a sequential      *)
(* object: get_record / get_all_records(n) / get_header / get_warnings /   *)
(* handle_query_modifier in ANY order (the engine, the CLI's preview and    *)
(* the interactive mode all mix them: rbql_main.py 181, 261).              *)
(*                                                                         *)
(* Abstraction: the table is the sequence of the field counts of its data  *)
(* lines (record i has widths[i] fields; comment lines and the chunking of *)
(* the stream are invisible at this level - CsvReader / C12 own them, the  *)
(* harness varies them under every history).  One action per public call;  *)
(* the constructor is action Construct because it already consumes a       *)
(* record (rbql_csv.py 358-361).                                           *)
(*                                                                         *)
(* Every reply is a sequence of naturals (TLC's equality is typed):        *)
(*   get   <<i>> (record i) or <<>> (None)                                 *)
(*   all   <<i, i+1, ..>>                                                  *)
(*   hdr   <<1>> or <<>> (None)                                            *)
(*   warn  <<nr1, w1, nr2, w2>> (inconsistent field counts) or <<>>        *)
(*   mod   <<>>                                                            *)
(***************************************************************************)
EXTENDS Naturals, Sequences, FiniteSets, TLC, Json

CONSTANTS MaxRecs,      \* tables of 0..MaxRecs lines
          MaxCalls,     \* histories of exactly MaxCalls calls after the constructor
          EmitCases,
          MUT           \* "" or the name of a deliberately wrong machine (non-vacuity)

VARIABLES pc,           \* "table" -> "ctor" -> "run" -> "done"
          widths,       \* the table
          hdr0,         \* has_header as given to the constructor
          hasHeader,    \* self.has_header
          emitFirst,    \* self.first_record_should_be_emitted
          nxt,          \* index of the next line the stream will yield
          nr,           \* self.NR
          fi,           \* self.fields_info: width -> NR of its first occurrence (0 = absent)
          eof,          \* a None has been replied
          hist          \* the calls with their replies

vars == <<pc, widths, hdr0, hasHeader, emitFirst, nxt, nr, fi, eof, hist>>

Widths == 1..2
NoFi == [w \in Widths |-> 0]

\* one pull from the stream: polymorphic_get_row + split + fields_info (rbql_csv.py 455-475)
CanPull == nxt <= Len(widths)
Pulled(f, n, k) == [f EXCEPT ![widths[k]] = IF @ = 0 THEN n + 1 ELSE @]

Init == /\ pc = "table" /\ widths = <<>> /\ hdr0 = FALSE /\ hasHeader = FALSE /\ emitFirst = FALSE
        /\ nxt = 1 /\ nr = 0 /\ fi = NoFi /\ eof = FALSE /\ hist = <<>>

GrowTable == /\ pc = "table" /\ Len(widths) < MaxRecs
             /\ \E w \in Widths : widths' = Append(widths, w)
             /\ UNCHANGED <<pc, hdr0, hasHeader, emitFirst, nxt, nr, fi, eof, hist>>

ChooseHeader == /\ pc = "table"
                /\ \E h \in BOOLEAN : hdr0' = h
                /\ pc' = "ctor"
                /\ UNCHANGED <<widths, hasHeader, emitFirst, nxt, nr, fi, eof, hist>>

\* __init__: first_record = get_record(); first_record_should_be_emitted = not has_header
Construct == /\ pc = "ctor"
             /\ hasHeader' = hdr0
             /\ emitFirst' = ~hdr0
             /\ IF CanPull THEN /\ nxt' = nxt + 1 /\ nr' = nr + 1 /\ fi' = Pulled(fi, nr, nxt)
                           ELSE UNCHANGED <<nxt, nr, fi>>
             /\ pc' = "run"
             /\ UNCHANGED <<widths, hdr0, eof, hist>>

Log(op, arg, reply) == hist' = Append(hist, [op |-> op, arg |-> arg, reply |-> reply])
Calls == pc = "run" /\ Len(hist) < MaxCalls

\* the first record exists iff the table is non-empty
FirstExists == Len(widths) >= 1

GetRecord ==
    /\ Calls
    /\ IF emitFirst
       THEN /\ emitFirst' = FALSE
            /\ Log("get", 0, IF FirstExists THEN <<1>> ELSE <<>>)       \* first_record is None for an empty table
            /\ eof' = (eof \/ ~FirstExists)
            /\ UNCHANGED <<nxt, nr, fi>>
       ELSE IF CanPull
            THEN /\ Log("get", 0, <<nxt>>)
                 /\ nxt' = IF MUT = "skip_after_header" /\ hasHeader /\ nxt = 2 /\ nxt + 1 <= Len(widths) THEN nxt + 2 ELSE nxt + 1
                 /\ nr' = nr + 1 /\ fi' = Pulled(fi, nr, nxt)
                 /\ UNCHANGED <<emitFirst, eof>>
            ELSE /\ Log("get", 0, <<>>) /\ eof' = TRUE /\ UNCHANGED <<emitFirst, nxt, nr, fi>>
    /\ UNCHANGED <<pc, widths, hdr0, hasHeader>>

\* get_all_records(num_rows): get_record until None or num_rows records; n = 0 stands for num_rows=None
RECURSIVE Take(_, _, _, _, _, _)
\* returns <<reply, emitFirst, nxt, nr, fi, sawNone>>
Take(n, acc, ef, x, r, f) ==
    IF n # 0 /\ Len(acc) >= (IF MUT = "all_one_more" THEN n + 1 ELSE n) THEN <<acc, ef, x, r, f, FALSE>>
    ELSE IF ef THEN (IF FirstExists THEN Take(n, Append(acc, 1), FALSE, x, r, f) ELSE <<acc, FALSE, x, r, f, TRUE>>)
    ELSE IF x <= Len(widths) THEN Take(n, Append(acc, x), FALSE, x + 1, r + 1, Pulled(f, r, x))
    ELSE <<acc, FALSE, x, r, f, TRUE>>

GetAll(n) ==
    /\ Calls
    /\ LET t == Take(n, <<>>, emitFirst, nxt, nr, fi) IN
         /\ Log("all", n, t[1])
         /\ emitFirst' = t[2] /\ nxt' = t[3] /\ nr' = t[4] /\ fi' = t[5]
         /\ eof' = (eof \/ t[6])
    /\ UNCHANGED <<pc, widths, hdr0, hasHeader>>

GetHeader ==
    /\ Calls
    /\ Log("hdr", 0, IF hasHeader /\ FirstExists THEN <<1>> ELSE <<>>)
    /\ UNCHANGED <<pc, widths, hdr0, hasHeader, emitFirst, nxt, nr, fi, eof>>

\* make_inconsistent_num_fields_warning: the two earliest (NR, width) entries of fields_info
WarnReply(f) ==
    IF \E w \in Widths : f[w] = 0 THEN <<>>
    ELSE LET a == CHOOSE w \in Widths : \A v \in Widths : f[w] <= f[v]
             b == CHOOSE w \in Widths : w # a
         IN <<f[a], a, f[b], b>>

GetWarnings ==
    /\ Calls
    /\ Log("warn", 0, WarnReply(fi))
    /\ UNCHANGED <<pc, widths, hdr0, hasHeader, emitFirst, nxt, nr, fi, eof>>

\* handle_query_modifier (WITH (header) / WITH (noheader)); the engine calls it before the first read
Modifier(m) ==
    /\ Calls /\ Len(hist) = 0
    /\ hasHeader' = (m = 1)
    /\ emitFirst' = (m = 0)
    /\ Log("mod", m, <<>>)
    /\ UNCHANGED <<pc, widths, hdr0, nxt, nr, fi, eof>>

Finish == /\ pc = "run" /\ Len(hist) = MaxCalls /\ pc' = "done"
          /\ UNCHANGED <<widths, hdr0, hasHeader, emitFirst, nxt, nr, fi, eof, hist>>

Next == GrowTable \/ ChooseHeader \/ Construct \/ GetRecord \/ (\E n \in 0..2 : GetAll(n)) \/ GetHeader \/ GetWarnings
        \/ (\E m \in 0..1 : Modifier(m)) \/ Finish

Spec == Init /\ [][Next]_vars

-----------------------------------------------------------------------------
\* Properties, stated over the history only (independent of the machine's variables where possible)

RECURSIVE Flat(_)
Flat(h) == IF h = <<>> THEN <<>> ELSE (IF h[1].op \in {"get", "all"} THEN h[1].reply ELSE <<>>) \o Flat(Tail(h))

\* the effective header flag of a history: the modifier if there is one, else the constructor's
EffHeader == IF hist # <<>> /\ hist[1].op = "mod" THEN hist[1].arg = 1 ELSE hdr0

\* (P1) the records delivered by get_record / get_all_records, concatenated over the whole history, are a prefix of the
\*      data records in order: nothing lost, nothing twice, the header line never among them
Delivered == Flat(hist)
FirstData == IF EffHeader THEN 2 ELSE 1
NoLossNoDup == pc \in {"run", "done"} => \A k \in 1..Len(Delivered) : Delivered[k] = FirstData + k - 1 /\ Delivered[k] <= Len(widths)

\* (P2) end of input is sticky and truthful: a None / short reply only when everything has been delivered, and nothing after it
Short(c) == (c.op = "get" /\ c.reply = <<>>) \/ (c.op = "all" /\ (c.arg = 0 \/ Len(c.reply) < c.arg))
EofTruthful == pc \in {"run", "done"} =>
    \A k \in 1..Len(hist) : Short(hist[k]) =>
        /\ Len(Flat(SubSeq(hist, 1, k))) = (IF Len(widths) >= FirstData THEN Len(widths) - FirstData + 1 ELSE 0)
        /\ \A j \in k + 1..Len(hist) : hist[j].op \in {"get", "all"} => hist[j].reply = <<>>

\* (P3) get_all_records(n) never returns more than n records
AllBounded == \A k \in 1..Len(hist) : hist[k].op = "all" /\ hist[k].arg # 0 => Len(hist[k].reply) <= hist[k].arg

\* (P4) warnings describe exactly the consumed prefix (lines 1..nxt-1, header line included), whatever calls consumed it
RECURSIVE FiOf(_, _)
FiOf(k, f) == IF k = 0 THEN f ELSE LET g == FiOf(k - 1, f) IN [g EXCEPT ![widths[k]] = IF @ = 0 THEN k ELSE @]
Consumed == IF pc \in {"table", "ctor"} THEN 0
            ELSE LET d == Len(Delivered) IN
                 IF Len(widths) = 0 THEN 0
                 ELSE IF EffHeader THEN 1 + d ELSE (IF d = 0 THEN 1 ELSE d)       \* the constructor has already pulled line 1
WarningsOfPrefix == pc \in {"run", "done"} => fi = FiOf(Consumed, NoFi)

\* (P5) the header reply is stable over a history
HeaderStable == \A k \in 1..Len(hist) : hist[k].op = "hdr" => hist[k].reply = (IF EffHeader /\ FirstExists THEN <<1>> ELSE <<>>)

TypeOK == /\ pc \in {"table", "ctor", "run", "done"} /\ nxt \in 1..MaxRecs + 1 /\ nr \in 0..MaxRecs
          /\ Len(widths) <= MaxRecs /\ Len(hist) <= MaxCalls

Emit == (pc = "done" /\ EmitCases) => PrintT(ToJson([widths |-> widths, header |-> hdr0, hist |-> hist]))
=============================================================================
