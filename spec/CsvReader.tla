------------------------------ MODULE CsvReader ------------------------------
(***************************************************************************)
(* The Python streaming CSV reader (rbql_csv.CSVRecordIterator), C12 / C15.*)
(*                                                                         *)
(* Declarative side: RefRead(text, ...) of CsvText.tla.                     *)
(*                                                                         *)
(* Operational side: the reader as a state machine whose steps are the     *)
(* stream.read(n) calls of the implementation.  A read returns ANY         *)
(* non-empty prefix of what is left (short reads: what a pipe delivers),   *)
(* so one behaviour = one delivery schedule, and the set of behaviours     *)
(* covers every chunk size and every partition of the text.  The CR        *)
(* look-ahead read(1) of _get_row_from_buffer is its own step.             *)
(*                                                                         *)
(* Theorem checked by TLC: on every path the machine ends with exactly     *)
(* RefRead(text) (schedule independence), and errs iff RefRead errs.       *)
(***************************************************************************)
EXTENDS CsvText

--------------------------------------------------------------------------
(* the reader as a state machine; every stream.read is one step *)

CONSTANTS Alphabet, MaxLen,
          Policies,        \* subset of {"simple", "quoted", "quoted_rfc"}
          CommentChars,    \* subset of Nat, 0 = no comment prefix
          Enc,             \* "none" | "utf-8" | "latin-1"  (what remove_utf8_bom assumes)
          DlmA,            \* the (single character) delimiter
          EmitCases, MUT

Dlm == <<DlmA>>

VARIABLES text, policy, cmt,            \* the case, chosen by setup steps
          pc, rpos, buf, exh, cur,      \* stream position, carried buffer, exhausted flag, line awaiting its look-ahead
          NL, inrfc, rfcbuf,            \* physical line count, multi-line record assembly
          recs, bom, firstdef, err, errnr, errnl

vars == <<text, policy, cmt, pc, rpos, buf, exh, cur, NL, inrfc, rfcbuf, recs, bom, firstdef, err, errnr, errnl>>
rvars == <<rpos, buf, exh, cur>>
lvars == <<NL, inrfc, rfcbuf, recs, bom, firstdef, err, errnr, errnl>>

Init == /\ text = <<>> /\ policy = "simple" /\ cmt = 0 /\ pc = "setup"
        /\ rpos = 1 /\ buf = <<>> /\ exh = FALSE /\ cur = <<>>
        /\ NL = 0 /\ inrfc = FALSE /\ rfcbuf = <<>>
        /\ recs = <<>> /\ bom = FALSE /\ firstdef = 0 /\ err = FALSE /\ errnr = 0 /\ errnl = 0

Grow == /\ pc = "setup" /\ Len(text) < MaxLen
        /\ \E c \in Alphabet : text' = Append(text, c)
        /\ UNCHANGED <<policy, cmt, pc>> /\ UNCHANGED rvars /\ UNCHANGED lvars

Start == /\ pc = "setup"
         /\ \E p \in Policies, c \in CommentChars : policy' = p /\ cmt' = c
         /\ pc' = "row"
         /\ UNCHANGED text /\ UNCHANGED rvars /\ UNCHANGED lvars

Remaining == Len(text) - rpos + 1

\* ---- line-level processing, folded into the step that completes a line (R4) ----

\* a complete logical row: skip comments, split, count, warn
RowEffect(row, nl) ==
    IF IsComment(row, cmt)
    THEN /\ UNCHANGED <<recs, firstdef, err, errnr, errnl>> /\ pc' = "row"
    ELSE LET sp == RefSplit(row, Dlm, SplitPolicy(policy)) IN
         IF sp.warn /\ firstdef = 0
         THEN /\ firstdef' = nl
              /\ IF policy = "quoted_rfc"
                 THEN /\ err' = TRUE /\ errnr' = Len(recs) + 1 /\ errnl' = nl /\ pc' = "error" /\ UNCHANGED recs
                 ELSE /\ recs' = Append(recs, sp.fields) /\ pc' = "row" /\ UNCHANGED <<err, errnr, errnl>>
         ELSE /\ recs' = Append(recs, sp.fields) /\ pc' = "row" /\ UNCHANGED <<firstdef, err, errnr, errnl>>

\* get_row_simple returned the physical line l
DeliverLine(l0) ==
    LET nl == NL + 1
        l  == IF nl = 1 THEN StripBomLine(l0, Enc) ELSE l0
    IN /\ NL' = nl
       /\ bom' = (bom \/ (nl = 1 /\ l # l0))
       /\ IF policy # "quoted_rfc"
          THEN /\ RowEffect(l, nl) /\ UNCHANGED <<inrfc, rfcbuf>>
          ELSE IF ~inrfc
               THEN IF IsComment(l, cmt) \/ ~OddQ(l)
                    THEN /\ RowEffect(l, nl) /\ UNCHANGED <<inrfc, rfcbuf>>
                    ELSE /\ inrfc' = TRUE /\ rfcbuf' = <<l>> /\ pc' = "row"
                         /\ UNCHANGED <<recs, firstdef, err, errnr, errnl>>
               ELSE IF OddQ(l)
                    THEN /\ inrfc' = FALSE /\ rfcbuf' = <<>>
                         /\ LET row == JoinBy(Append(rfcbuf, l), <<LF>>) IN
                            \* inside a multi-line record a comment-looking row is still data (only the first line is tested)
                            LET sp == RefSplit(row, Dlm, "quoted") IN
                            IF sp.warn /\ firstdef = 0
                            THEN /\ firstdef' = nl /\ err' = TRUE /\ errnr' = Len(recs) + 1 /\ errnl' = nl /\ pc' = "error" /\ UNCHANGED recs
                            ELSE /\ recs' = Append(recs, sp.fields) /\ pc' = "row" /\ UNCHANGED <<firstdef, err, errnr, errnl>>
                    ELSE /\ rfcbuf' = Append(rfcbuf, l) /\ pc' = "row"
                         /\ UNCHANGED <<inrfc, recs, firstdef, err, errnr, errnl>>

\* get_row_simple returned None (end of input)
DeliverEof ==
    /\ UNCHANGED <<NL, bom>>
    /\ IF inrfc
       THEN /\ inrfc' = FALSE /\ rfcbuf' = <<>>
            /\ LET row == JoinBy(rfcbuf, <<LF>>)
                   sp  == RefSplit(row, Dlm, "quoted") IN
               IF sp.warn /\ firstdef = 0
               THEN /\ firstdef' = NL /\ err' = TRUE /\ errnr' = Len(recs) + 1 /\ errnl' = NL /\ pc' = "error" /\ UNCHANGED recs
               ELSE /\ recs' = Append(recs, sp.fields) /\ pc' = "done" /\ UNCHANGED <<firstdef, err, errnr, errnl>>
       ELSE /\ pc' = "done" /\ UNCHANGED <<inrfc, rfcbuf, recs, firstdef, err, errnr, errnl>>

\* ---- _get_row_from_buffer, first ("row") and second ("row2") attempt ----
TryExtract(second) ==
    LET k == FirstNL(buf, 1) IN
    IF k = 0
    THEN IF ~second /\ ~exh
         THEN /\ pc' = "fill" /\ UNCHANGED rvars /\ UNCHANGED lvars               \* enter _read_until_found
         ELSE \* exhausted: the rest of the buffer is the last line (or end of input)
              IF buf = <<>> \/ MUT = "drop_unterminated_last_line"
              THEN /\ DeliverEof /\ buf' = <<>> /\ UNCHANGED <<rpos, exh, cur>>
              ELSE /\ DeliverLine(buf) /\ buf' = <<>> /\ UNCHANGED <<rpos, exh, cur>>
    ELSE IF buf[k] = CR /\ k = Len(buf) /\ MUT # "no_cr_lookahead"
         THEN /\ pc' = "look" /\ cur' = SubSeq(buf, 1, k - 1) /\ buf' = <<>>         \* CR ends the buffer: read(1) decides CR vs CRLF
              /\ UNCHANGED <<rpos, exh>> /\ UNCHANGED lvars
         ELSE LET two == buf[k] = CR /\ k < Len(buf) /\ buf[k + 1] = LF IN
              /\ DeliverLine(SubSeq(buf, 1, k - 1))
              /\ buf' = SubSeq(buf, k + (IF two THEN 2 ELSE 1), Len(buf))
              /\ UNCHANGED <<rpos, exh, cur>>

Row  == pc = "row"  /\ TryExtract(FALSE) /\ UNCHANGED <<text, policy, cmt>>
Row2 == pc = "row2" /\ TryExtract(TRUE)  /\ UNCHANGED <<text, policy, cmt>>

\* one stream.read(chunk_size) inside _read_until_found returning n > 0 characters ...
FillN(n) ==
    /\ pc = "fill" /\ n \in 1..Remaining
    /\ LET piece == SubSeq(text, rpos, rpos + n - 1) IN
       /\ rpos' = rpos + n
       /\ buf' = buf \o piece
       /\ pc' = IF FirstNL(piece, 1) # 0 THEN "row2" ELSE "fill"
       /\ UNCHANGED <<exh, cur>>
    /\ UNCHANGED <<text, policy, cmt>> /\ UNCHANGED lvars

\* ... or '' at the end of the stream
FillEof ==
    /\ pc = "fill" /\ Remaining = 0
    /\ exh' = TRUE /\ pc' = "row2" /\ UNCHANGED <<rpos, buf, cur>>
    /\ UNCHANGED <<text, policy, cmt>> /\ UNCHANGED lvars

\* short reads are nondeterministic: any non-empty prefix of what is left (that is the delivery schedule)
Fill == FillEof \/ \E n \in 1..Remaining : FillN(n)

\* the look-ahead stream.read(1) after a CR that ended the buffer
Look ==
    /\ pc = "look"
    /\ IF Remaining = 0
       THEN /\ DeliverLine(cur) /\ UNCHANGED <<rpos, buf, exh>>
       ELSE /\ rpos' = rpos + 1
            /\ buf' = IF text[rpos] = LF THEN <<>> ELSE <<text[rpos]>>
            /\ DeliverLine(cur)
            /\ UNCHANGED exh
    /\ cur' = <<>>
    /\ UNCHANGED <<text, policy, cmt>>

Next == Grow \/ Start \/ Row \/ Row2 \/ Fill \/ Look
Spec == Init /\ [][Next]_vars

--------------------------------------------------------------------------
(* theorems *)

Terminal == pc \in {"done", "error"}

Result == [recs |-> recs, bom |-> bom, firstdef |-> firstdef, ragged |-> Ragged(recs), err |-> err, errnr |-> errnr, errnl |-> errnl]

\* C12: whatever the delivery schedule, the reader ends with the meaning of the text
ScheduleIndependent == Terminal => Result = RefRead(text, Dlm, policy, cmt, Enc)

ErrIff == Terminal => ((pc = "error") <=> RefRead(text, Dlm, policy, cmt, Enc).err)

\* nothing is ever read twice or skipped: consumed prefix = delivered lines + buffer
NoLoss == rpos \in 1..(Len(text) + 1) /\ (Terminal /\ ~err => rpos = Len(text) + 1 /\ buf = <<>>)

\* the reader never gets stuck before the end
Progress == (pc \notin {"setup", "done", "error"}) => ENABLED (Row \/ Row2 \/ Fill \/ Look)

WithHeader(r) == IF r.recs = <<>> THEN [header |-> <<>>, data |-> <<>>, has |-> FALSE]
                 ELSE [header |-> r.recs[1], data |-> Tail(r.recs), has |-> TRUE]

CaseOf == LET r == RefRead(text, Dlm, policy, cmt, Enc) IN
          [text |-> text, dlm |-> Dlm, policy |-> policy, cmt |-> cmt, enc |-> Enc, ref |-> r, hdr |-> WithHeader(r)]

Emit == (Terminal /\ EmitCases) => PrintT(ToJson(CaseOf))
=============================================================================
