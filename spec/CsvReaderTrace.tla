--------------------------- MODULE CsvReaderTrace ---------------------------
(***************************************************************************)
(* Code -> specification for the Python reader: each ndjson line is one    *)
(* recorded execution of rbql_csv.CSVRecordIterator over a scripted stream *)
(*   {tid, text, policy, cmt, cs, reads: [[n, piece]...], result}          *)
(* The recorded stream.read(n) -> piece events are consumed one by one by  *)
(* the actions of CsvReader (FillN / FillEof / Look); the buffer handling  *)
(* in between (Row / Row2) is unlogged and taken silently.  A trace is     *)
(* accepted iff every event is explained, the machine terminates, and the  *)
(* recorded result equals the machine's (= RefRead by the theorem).        *)
(* Many traces per TLC run: Advance re-initialises the machine.            *)
(***************************************************************************)
EXTENDS CsvReader, IOUtils

Traces == ndJsonDeserialize(IOEnv.TRACE_FILE)

VARIABLES tid, l
tvars == <<vars, tid, l>>

T == Traces[tid]
Ev == T.reads[l]

LoadCase(t) ==
    /\ text' = t.text /\ policy' = t.policy /\ cmt' = t.cmt /\ pc' = "row"
    /\ rpos' = 1 /\ buf' = <<>> /\ exh' = FALSE /\ cur' = <<>>
    /\ NL' = 0 /\ inrfc' = FALSE /\ rfcbuf' = <<>>
    /\ recs' = <<>> /\ bom' = FALSE /\ firstdef' = 0 /\ err' = FALSE /\ errnr' = 0 /\ errnl' = 0

TInit == /\ tid = 0 /\ l = 1 /\ Init

HasEvent == tid >= 1 /\ tid <= Len(Traces) /\ l <= Len(T.reads)

\* a read issued inside _read_until_found: asks for chunk_size, gets the recorded piece
TFill == /\ HasEvent /\ pc = "fill"
         /\ Ev[1] = T.cs
         /\ IF Ev[2] = <<>> THEN FillEof
            ELSE /\ Len(Ev[2]) <= Ev[1]
                 /\ Ev[2] = SubSeq(text, rpos, rpos + Len(Ev[2]) - 1)
                 /\ FillN(Len(Ev[2]))
         /\ l' = l + 1 /\ UNCHANGED tid

\* the CR look-ahead: asks for exactly one character
TLook == /\ HasEvent /\ pc = "look"
         /\ Ev[1] = 1
         /\ Ev[2] = (IF Remaining = 0 THEN <<>> ELSE <<text[rpos]>>)
         /\ Look
         /\ l' = l + 1 /\ UNCHANGED tid

\* unlogged buffer handling between two reads
TSilent == /\ tid >= 1 /\ (Row \/ Row2) /\ UNCHANGED <<tid, l>>

TStep == TFill \/ TLook \/ TSilent

Accepted == /\ tid >= 1 /\ tid <= Len(Traces) /\ Terminal /\ l = Len(T.reads) + 1
            /\ Result = T.result
            /\ Result = RefRead(text, Dlm, policy, cmt, Enc)

\* next trace: after acceptance, or when the current trace cannot be continued (it is then reported as rejected)
Advance == /\ tid <= Len(Traces)
           /\ (tid = 0 \/ ~ENABLED TStep)
           /\ tid' = tid + 1 /\ l' = 1
           /\ IF tid + 1 <= Len(Traces) THEN LoadCase(Traces[tid + 1])
              ELSE UNCHANGED vars

TNext == TStep \/ Advance
TSpec == TInit /\ [][TNext]_tvars

Report == IF tid >= 1 /\ tid <= Len(Traces) /\ ~ENABLED TStep
          THEN IF Accepted THEN PrintT(ToJson([ok |-> T.tid]))
               ELSE PrintT(ToJson([reject |-> T.tid, at |-> l, pc |-> pc, rpos |-> rpos, buf |-> buf, machine |-> Result,
                                   ref |-> RefRead(text, Dlm, policy, cmt, Enc)]))
          ELSE IF tid = Len(Traces) + 1 THEN PrintT(ToJson([consumed |-> Len(Traces)])) ELSE TRUE
=============================================================================
