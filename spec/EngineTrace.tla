---------------------------- MODULE EngineTrace ----------------------------
(***************************************************************************)
(* Code -> specification for the query engine: each ndjson line is one     *)
(* recorded execution of rbql.query behind recording iterator / writer     *)
(* objects:                                                                *)
(*  {tid, outcome: "ok"|"error", errcls, events: [{e, t, end, ok}..], streaming,   *)
(*   pulllimit, buffered, joined, alias, src_changed}                      *)
(* The monitors of Monitors.tla are folded over the events (fold style,    *)
(* one TLC state per execution).  Every event record carries all four      *)
(* fields so that the monitors can read them without type tests.           *)
(***************************************************************************)
EXTENDS Monitors, TLC, Json, IOUtils

Traces == ndJsonDeserialize(IOEnv.TRACE_FILE)

VARIABLE i
Init == i = 1
Next == i <= Len(Traces) /\ i' = i + 1

RECURSIVE FoldM(_, _, _)
FoldM(m, evs, k) == IF k > Len(evs) THEN m ELSE FoldM(MStep(m, evs[k].e, evs[k].ok), evs, k + 1)
RECURSIVE FoldP(_, _, _)
FoldP(p, evs, k) == IF k > Len(evs) THEN p ELSE FoldP(PStep(p, evs[k]), evs, k + 1)

Reasons(t) ==
    LET m == FoldM(M0, t.events, 1)
        p == FoldP(P0, t.events, 1)
    IN [protocol      |-> ~m.bad,
        finish_iff_ok |-> IF t.outcome = "ok" THEN m.fin = 1 ELSE m.fin = 0,
        prompt        |-> ~p.pullAfterRefusal,
        pull_bound    |-> (t.streaming => p.a <= t.pulllimit),
        b_before_a    |-> ~p.aBeforeBEnd /\ ~p.bAfterEnd,
        parse_before_write |-> (t.errcls = "parsing" => m.writes = 0),
        no_alias      |-> ~t.alias,
        sources       |-> ~t.src_changed]

Accept(t) == LET r == Reasons(t) IN r.protocol /\ r.finish_iff_ok /\ r.parse_before_write /\ r.prompt /\ r.pull_bound /\ r.b_before_a /\ r.no_alias /\ r.sources

Judge == IF i <= Len(Traces)
         THEN Accept(Traces[i]) \/ PrintT(ToJson([reject |-> Traces[i].tid, reasons |-> Reasons(Traces[i])]))
         ELSE PrintT(ToJson([consumed |-> Len(Traces)]))
=============================================================================
