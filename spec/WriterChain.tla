---------------------------- MODULE WriterChain ----------------------------
(***************************************************************************)
(* The writer protocol of the engine with everything but the protocol      *)
(* abstracted away (C15, part "finish at most once, nothing after a        *)
(* refusal, header first"): how the main loop, the stop flag and the       *)
(* flush phase of the buffering writers drive the leaf writer.             *)
(*                                                                         *)
(* Two results are combined:                                               *)
(*  - TLC: RbqlEngine refines this module under the mapping given in       *)
(*    MC_Engine (PROPERTY ChainRefinement), for every query family and     *)
(*    table within the bounds of the engine checks;                        *)
(*  - Apalache: IndInv is an inductive invariant of this module and        *)
(*    implies ~m.bad -- for ANY number of records and writes (m.writes is  *)
(*    an unbounded integer), which TLC's bounded tables cannot give.       *)
(* The monitor (M0, MStep) is the one of Monitors.tla, the same operator   *)
(* that judges recorded executions of the real engine (EngineTrace).       *)
(***************************************************************************)
EXTENDS Naturals, Sequences, Monitors

VARIABLES
    \* @type: Str;
    apc,      \* "pre" (nothing handed to the writer yet), "loop" (main loop), "flush" (writer.finish() draining buffers), "done", "failed"
    \* @type: Bool;
    astop,    \* some writer of the chain has refused a record (stop_flag / the flush loop's break)
    \* @type: Str;
    mode,     \* "stream": rows reach the leaf during the main loop;  "buffered": only while flushing (ORDER BY, aggregates, DISTINCT COUNT)
    \* @type: { hdr: Int, writes: Int, refused: Bool, fin: Int, bad: Bool };
    m         \* the writer-protocol monitor

wvars == <<apc, astop, mode, m>>

WInit == apc = "pre" /\ astop = FALSE /\ mode \in {"stream", "buffered"} /\ m = M0

ChooseMode == apc = "pre" /\ mode' \in {"stream", "buffered"} /\ UNCHANGED <<apc, astop, m>>
FailPre    == apc = "pre" /\ apc' = "failed" /\ UNCHANGED <<astop, mode, m>>                 \* parsing / IO error before the header is handed over
SetHeader  == apc = "pre" /\ m' = MStep(m, "set_header", TRUE) /\ apc' = "loop" /\ UNCHANGED <<astop, mode>>
\* one row pushed down the chain reaches the leaf, which accepts or refuses it
LoopWrite  == apc = "loop" /\ mode = "stream" /\ ~astop
              /\ \E ok \in BOOLEAN : m' = MStep(m, "write", ok) /\ astop' = ~ok
              /\ UNCHANGED <<apc, mode>>
\* a writer above the leaf refuses (TOP reached): no leaf event, the loop stops
ChainStop  == apc \in {"loop", "flush"} /\ astop' = TRUE /\ UNCHANGED <<apc, mode, m>>
FailLoop   == apc \in {"loop", "flush"} /\ apc' = "failed" /\ UNCHANGED <<astop, mode, m>>                \* runtime error: writer.finish() is not called
EndLoop    == apc = "loop" /\ apc' = "flush" /\ UNCHANGED <<astop, mode, m>>
FlushWrite == apc = "flush" /\ mode = "buffered" /\ ~astop
              /\ \E ok \in BOOLEAN : m' = MStep(m, "write", ok) /\ astop' = ~ok
              /\ UNCHANGED <<apc, mode>>
Finish     == apc = "flush" /\ m' = MStep(m, "finish", TRUE) /\ apc' = "done" /\ UNCHANGED <<astop, mode>>

WNext == ChooseMode \/ FailPre \/ SetHeader \/ LoopWrite \/ ChainStop \/ FailLoop \/ EndLoop \/ FlushWrite \/ Finish
WSpec == WInit /\ [][WNext]_wvars

Safe == ~m.bad

TypeOK == /\ apc \in {"pre", "loop", "flush", "done", "failed"}
          /\ astop \in BOOLEAN
          /\ mode \in {"stream", "buffered"}
          /\ m.hdr \in {0, 1} /\ m.fin \in {0, 1} /\ m.writes \in Nat /\ m.refused \in BOOLEAN /\ m.bad \in BOOLEAN

IndInv == /\ TypeOK
          /\ ~m.bad
          /\ (apc = "pre" => m = M0 /\ ~astop)
          /\ (apc \in {"loop", "flush"} => m.hdr = 1 /\ m.fin = 0)
          /\ (apc = "failed" => m.fin = 0)
          /\ (apc = "done" => m.fin = 1)
          /\ (m.refused => astop)
          /\ (mode = "buffered" /\ apc = "loop" => m.writes = 0 /\ ~m.refused)
=============================================================================
