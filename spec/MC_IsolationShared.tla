---------------------------- MODULE MC_IsolationShared ----------------------------
(* Query kinds and tables for the isolation configs (C16). *)
EXTENDS RbqlIsolationShared

Base == E1!BaseQ
S(c)  == <<"s", <<c>>>>
Fa(i) == <<"fld", "a", i>>
L(c)  == <<"lit", <<c>>>>
E(x)  == <<"e", x>>
Pz(e) == <<"poison", e, <<112>>>>

K_plain    == [Base EXCEPT !.items = <<E(Fa(1)), E(<<"NR">>)>>]
K_top      == [Base EXCEPT !.items = <<E(Fa(1))>>, !.hastop = TRUE, !.top = 1]
K_sorted   == [Base EXCEPT !.items = <<E(Fa(2)), E(Fa(1))>>, !.order = <<Fa(2)>>, !.desc = TRUE]
K_count    == [Base EXCEPT !.items = <<E(Fa(1))>>, !.distinct = "count"]
K_agg      == [Base EXCEPT !.items = << <<"agg", "COUNT", <<"int", 1>> >>, <<"agg", "ARRAY_AGG", Fa(2)>>, E(Fa(1)) >>, !.hasgroup = TRUE, !.group = <<Fa(1)>>]
K_unnest   == [Base EXCEPT !.items = <<E(<<"NR">>), <<"unnest", <<"flds", <<1, 2>>>>>> >>]
K_update   == [Base EXCEPT !.kind = "update", !.assign = << <<1, Fa(2)>>, <<2, <<"NU">> >> >>, !.where = <<"nrodd">>]
K_fail     == [Base EXCEPT !.items = <<E(Pz(Fa(1))), E(<<"NR">>)>>]
K_parsefail == [Base EXCEPT !.items = <<E(Fa(1)), <<"unnest", <<"flds", <<1, 2>>>>>>, <<"unnest", <<"flds", <<2, 1>>>>>> >>]

\* singletons (cfg substitutions need identifiers)
S_plain == {K_plain}
S_top == {K_top}
S_sorted == {K_sorted}
S_count == {K_count}
S_agg == {K_agg}
S_unnest == {K_unnest}
S_update == {K_update}
S_fail == {K_fail}
S_parsefail == {K_parsefail}

Kinds == {K_plain, K_top, K_sorted, K_count, K_agg, K_unnest, K_update, K_fail, K_parsefail}
KindsQ == {K_plain, K_top, K_agg, K_unnest, K_fail}
R_iso == {<<S(97), S(98)>>, <<S(98), S(97)>>, <<S(112), S(97)>>}
R_iso2 == {<<S(97), S(98)>>, <<S(112), S(97)>>}
\* for exhaustive schedule emission: only tables of exactly two records a/b, p/a are kept (state constraint)
R_isoFixed == R_iso2
=============================================================================
