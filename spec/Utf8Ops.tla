------------------------------ MODULE Utf8Ops ------------------------------
(***************************************************************************)
(* UTF-8 as the readers need it (C12 byte level, C15 bad bytes, C20).      *)
(*                                                                         *)
(* Declarative part: Encode(chars), Valid(bytes), Decode(bytes).           *)
(* The incremental decoder machine is in Utf8.tla.                         *)
(***************************************************************************)
EXTENDS Naturals, Sequences

EncodeChar(c) ==
    IF c < 128 THEN <<c>>
    ELSE IF c < 2048 THEN <<192 + c \div 64, 128 + (c % 64)>>
    ELSE IF c < 65536 THEN <<224 + c \div 4096, 128 + ((c \div 64) % 64), 128 + (c % 64)>>
    ELSE <<240 + c \div 262144, 128 + ((c \div 4096) % 64), 128 + ((c \div 64) % 64), 128 + (c % 64)>>

RECURSIVE Encode(_)
Encode(cs) == IF cs = <<>> THEN <<>> ELSE EncodeChar(cs[1]) \o Encode(Tail(cs))

IsCont(b) == b >= 128 /\ b < 192
\* number of bytes of the sequence a lead byte announces; 0 = not a lead byte
SeqLen(b) == IF b < 128 THEN 1 ELSE IF b >= 194 /\ b < 224 THEN 2 ELSE IF b >= 224 /\ b < 240 THEN 3 ELSE IF b >= 240 /\ b < 245 THEN 4 ELSE 0

\* code point of a complete, well-formed sequence; 0 - 1 is never produced: callers test WellFormed first
CodeOf(s) == CASE Len(s) = 1 -> s[1]
               [] Len(s) = 2 -> (s[1] - 192) * 64 + (s[2] - 128)
               [] Len(s) = 3 -> (s[1] - 224) * 4096 + (s[2] - 128) * 64 + (s[3] - 128)
               [] OTHER      -> (s[1] - 240) * 262144 + (s[2] - 128) * 4096 + (s[3] - 128) * 64 + (s[4] - 128)

\* a complete sequence is well formed: right length, continuation bytes, not overlong, not a surrogate, <= U+10FFFF
WellFormed(s) == /\ Len(s) >= 1 /\ SeqLen(s[1]) = Len(s)
                 /\ \A k \in 2..Len(s) : IsCont(s[k])
                 /\ LET c == CodeOf(s) IN
                    /\ (Len(s) = 3 => c >= 2048 /\ ~(c >= 55296 /\ c <= 57343))
                    /\ (Len(s) = 4 => c >= 65536 /\ c <= 1114111)

\* could s still grow into a well-formed sequence?
ViablePrefix(s) == /\ Len(s) >= 1 /\ SeqLen(s[1]) > Len(s)
                   /\ \A k \in 2..Len(s) : IsCont(s[k])
                   /\ (Len(s) >= 2 /\ s[1] = 224 => s[2] >= 160)
                   /\ (Len(s) >= 2 /\ s[1] = 237 => s[2] < 160)
                   /\ (Len(s) >= 2 /\ s[1] = 240 => s[2] >= 144)
                   /\ (Len(s) >= 2 /\ s[1] = 244 => s[2] < 144)

RECURSIVE DecodeFrom(_, _)
\* [ok, chars]
DecodeFrom(bs, p) ==
    IF p > Len(bs) THEN [ok |-> TRUE, chars |-> <<>>]
    ELSE LET n == SeqLen(bs[p]) IN
         IF n = 0 \/ p + n - 1 > Len(bs) \/ ~WellFormed(SubSeq(bs, p, p + n - 1)) THEN [ok |-> FALSE, chars |-> <<>>]
         ELSE LET r == DecodeFrom(bs, p + n) IN
              [ok |-> r.ok, chars |-> <<CodeOf(SubSeq(bs, p, p + n - 1))>> \o r.chars]
Decode(bs) == DecodeFrom(bs, 1)
Valid(bs)  == Decode(bs).ok


\* incremental decoding of one chunk given the bytes pending from the previous one: [ok, chars, pending]
RECURSIVE Consume(_, _, _)
Consume(chunk, pend, acc) ==
    IF chunk = <<>> THEN [ok |-> TRUE, chars |-> acc, pending |-> pend]
    ELSE LET s == Append(pend, chunk[1]) IN
         IF WellFormed(s) THEN Consume(Tail(chunk), <<>>, Append(acc, CodeOf(s)))
         ELSE IF ViablePrefix(s) THEN Consume(Tail(chunk), s, acc)
         ELSE [ok |-> FALSE, chars |-> acc, pending |-> <<>>]

=============================================================================
