------------------------------ MODULE MC_Engine ------------------------------
(***************************************************************************)
(* Model-checking instances of RbqlEngine: the query families and table    *)
(* spaces of the per-property sub-configs (DESIGN 5, "factoring of the     *)
(* case space").  cfg files substitute  Queries <- Q_xxx, RecsA <- R_xxx.  *)
(***************************************************************************)
EXTENDS RbqlEngine

S(c)  == Str(<<c>>)
Fa(i) == <<"fld", "a", i>>
Fb(i) == <<"fld", "b", i>>
L(c)  == <<"lit", <<c>>>>
E(x)  == <<"e", x>>
NRx   == <<"NR">>
NFx   == <<"NF">>
TRUEx == <<"true">>

SeqsUpTo(vals, n) == UNION {[1..k -> vals] : k \in 0..n}
SeqsBetween(vals, lo, hi) == UNION {[1..k -> vals] : k \in lo..hi}

\* cells: "a" < "b"; None
V2  == {S(97), S(98)}
V2N == {S(97), S(98), None}

R_w2   == SeqsBetween(V2, 1, 2)          \* 6 records
R_w2N  == SeqsUpTo(V2N, 2)               \* 13 records, incl. the empty record and None cells
R_w3N  == SeqsUpTo(V2N, 3)               \* 40 records
R_2x2  == [1..2 -> V2]                   \* rectangular, width 2
R_2x2N == [1..2 -> V2N]
R_none == {}
\* wide records: multi-digit field indices (a10, a[11]) must not be confused with a1
R_wide == {[k \in 1..11 |-> Str(<<96 + k>>)], [k \in 1..10 |-> Str(<<107 - k>>)]}
\* None and the empty string are different cells
V3E   == {S(97), Str(<<>>), None}
R_2x2E == [1..2 -> V3E]
R_2x2e == [1..2 -> {S(97), Str(<<>>)}]        \* empty strings but no None (string concatenation with None is an error in Python only)
\* one record, repeated: tables of up to 12 records for two-digit TOP / LIMIT values
R_one == {<<S(97), S(98)>>}
R_w1   == [1..1 -> V2]
R_w3   == [1..3 -> V2]
R_q4   == {<<S(97)>>, <<S(97), S(97)>>, <<S(97), S(98)>>, <<S(98), S(97)>>}     \* quick tier: 4 records incl. a short one

Agg(f, e) == <<"agg", f, e>>
P(e) == <<"poison", e, <<112>>>>                \* raises iff the value is "p"

\* ---------------------------------------------------------------- C01: select / where
WhereSet == {TRUEx, <<"eq", Fa(1), L(97)>>, <<"nrodd">>, Fa(2)}      \* Fa(2): truthiness of a bare field (None / "" are falsy)

ItemsPlain == {E(Fa(1)), E(Fa(2)), E(Fa(3)), E(L(120)), E(NRx), E(NFx), E(<<"cat", Fa(1), L(120)>>), E(<<"cat", Fa(1), Fa(2)>>),
               <<"star">>, <<"astar">>,
               <<"unnest", <<"flds", <<1, 2>>>>>>, <<"unnest", <<"rep", Fa(1)>>>>, <<"unnest", <<"empty">>>>}

OneUnnest(items) == Cardinality({k \in 1..Len(items) : IsUnnestItem(items[k])}) <= 1

Q_C01a == {[BaseQ EXCEPT !.items = its, !.where = w] : its \in {s \in SeqsBetween(ItemsPlain, 1, 2) : OneUnnest(s)}, w \in WhereSet}

Q_C01exc == {[BaseQ EXCEPT !.hasexc = TRUE, !.exc = ex, !.where = w] :
                ex \in {<<1>>, <<2>>, <<3>>, <<1, 2>>, <<2, 1>>, <<1, 3>>, <<1, 2, 3>>, <<2, 2, 3>>, <<3, 1, 1>>, <<1, 1>>}, w \in {TRUEx, <<"nrodd">>}}

\* ---------------------------------------------------------------- C04: joins
ItemsJoin == {E(Fa(1)), E(Fb(1)), E(Fb(2)), E(<<"bNR">>), E(NRx), <<"star">>, <<"astar">>, <<"bstar">>,
              E(<<"cat", Fa(1), Fb(1)>>), <<"unnest", <<"flds", <<1, 2>>>>>>, <<"unnest", <<"rep", Fb(1)>>>>}
JoinKeys  == {<< <<1, 1>> >>, << <<0, 0>> >>, << <<2, 1>> >>, << <<1, 1>>, <<2, 2>> >>, << <<0, 1>> >>}
WhereJoin == {TRUEx, <<"isnone", Fb(1)>>, <<"eq", Fb(2), L(97)>>}

Q_C04sel == {[BaseQ EXCEPT !.items = <<it>>, !.where = w, !.join = j, !.jkeys = ks] :
                it \in ItemsJoin, w \in WhereJoin, j \in {"inner", "left", "strict"}, ks \in JoinKeys}
\* for the JavaScript port: without the item whose failure for an unmatched LEFT JOIN row is Python's str + None TypeError ("a" + null is "anull" in JS)
Q_C04selJS == {qq \in Q_C04sel : qq.items # <<E(<<"cat", Fa(1), Fb(1)>>)>> \/ qq.join # "left"}
ItemsJoinQ == {E(Fa(1)), E(Fb(2)), E(<<"bNR">>), <<"star">>, <<"bstar">>, <<"unnest", <<"flds", <<1, 2>>>>>>}
Q_C04selQ == {[BaseQ EXCEPT !.items = <<it>>, !.where = w, !.join = j, !.jkeys = ks] :
                it \in ItemsJoinQ, w \in {TRUEx, <<"isnone", Fb(1)>>}, j \in {"inner", "left", "strict"}, ks \in JoinKeys}
\* three key pairs: every one must take part in the match
Q_C04k3 == {[BaseQ EXCEPT !.items = <<E(Fa(1)), E(<<"bNR">>)>>, !.join = j, !.jkeys = ks] : j \in {"inner", "left", "strict"},
              ks \in {<< <<1, 1>>, <<2, 2>>, <<3, 3>> >>, << <<3, 1>>, <<1, 3>>, <<2, 2>> >>, << <<1, 1>>, <<0, 0>>, <<3, 3>> >>}}
\* None cells as join keys (None equals None)
Q_C04none == {[BaseQ EXCEPT !.items = <<E(Fa(1)), E(Fb(2)), E(<<"bNR">>)>>, !.join = j, !.jkeys = ks] : j \in {"inner", "left", "strict"}, ks \in {<< <<1, 1>> >>, << <<2, 1>> >>, << <<1, 1>>, <<2, 2>> >>}}
Q_C04pairs == {[BaseQ EXCEPT !.items = <<i1, i2>>, !.join = j, !.jkeys = << <<1, 1>> >>] :
                i1 \in {E(Fa(1)), <<"astar">>, <<"unnest", <<"flds", <<1, 2>>>>>>}, i2 \in {E(Fb(2)), <<"bstar">>, E(<<"bNR">>)}, j \in {"inner", "left"}}

Q_C01wide == {[BaseQ EXCEPT !.items = its, !.where = w] :
                its \in {<<E(Fa(10))>>, <<E(Fa(1)), E(Fa(11))>>, <<E(Fa(11)), E(Fa(1))>>, <<E(<<"cat", Fa(1), Fa(10)>>), E(Fa(2))>>, <<E(Fa(12)), E(Fa(10))>>, <<E(Fa(2)), <<"unnest", <<"flds", <<10, 1>>>>>> >>},
                w \in {TRUEx, <<"eq", Fa(10), L(106)>>, <<"ne", Fa(1), Fa(10)>>}}
Q_C01widex == {[BaseQ EXCEPT !.hasexc = TRUE, !.exc = ex] : ex \in {<<10>>, <<1, 10>>, <<11, 2>>}}
Q_C01join == {[BaseQ EXCEPT !.items = <<it>>, !.where = w, !.join = j, !.jkeys = << <<1, 1>> >>] :
                it \in ItemsJoin, w \in {TRUEx, <<"isnone", Fb(1)>>}, j \in {"inner", "left"}}

\* ---------------------------------------------------------------- C02: order / distinct / top
OrderSet == {<<>>, <<Fa(1)>>, <<Fa(2)>>, <<Fa(1), Fa(2)>>, <<Fa(2), Fa(1)>>}
Q_C02 == {[BaseQ EXCEPT !.items = its, !.where = w, !.order = o, !.desc = d, !.distinct = di, !.hastop = ht, !.top = t] :
            its \in {<<E(Fa(1))>>, <<E(Fa(1)), E(Fa(2))>>, <<E(Fa(2)), E(NRx)>>, <<E(Fa(1)), <<"unnest", <<"flds", <<1, 2>>>>>> >>},
            w \in {TRUEx, <<"nrodd">>}, o \in OrderSet, d \in BOOLEAN, di \in {"none", "uniq", "count"},
            ht \in BOOLEAN, t \in 0..4}
Q_C02ok == {qq \in Q_C02 : (qq.order = <<>> => ~qq.desc) /\ (~qq.hastop => qq.top = 0)}

\* a small family on which every C02 specification mutant must fail (R5)
Q_C02mut == {[BaseQ EXCEPT !.items = <<E(Fa(1))>>, !.hastop = TRUE, !.top = 1],
             [BaseQ EXCEPT !.items = <<E(Fa(1)), E(NRx)>>, !.order = <<Fa(1)>>, !.desc = TRUE],
             [BaseQ EXCEPT !.items = <<E(Fa(1))>>, !.distinct = "uniq", !.order = <<Fa(2)>>],
             [BaseQ EXCEPT !.items = <<E(Fa(1))>>, !.distinct = "count", !.hastop = TRUE, !.top = 1],
             [BaseQ EXCEPT !.items = <<E(Fa(2))>>, !.distinct = "count", !.hastop = TRUE, !.top = 2, !.where = <<"ne", Fa(1), Fa(2)>>],
             [BaseQ EXCEPT !.items = <<E(Fa(1))>>, !.distinct = "uniq", !.hastop = TRUE, !.top = 1, !.order = <<Fa(2)>>, !.desc = TRUE]}

\* bounded queries that need no buffering, for the unbounded-input (cyclic iterator) liveness config
Q_C02live == {[BaseQ EXCEPT !.items = its, !.where = w, !.hastop = TRUE, !.top = t] :
                its \in {<<E(Fa(1))>>, <<E(Fa(1)), <<"unnest", <<"flds", <<1, 2>>>>>> >>, << <<"star">> >>}, w \in {TRUEx, <<"eq", Fa(1), L(97)>>}, t \in 0..2}
\* tables on which every such WHERE passes at least once per cycle
R_live == {<<S(97), S(98)>>, <<S(97), S(97)>>}

\* two-digit bounds over a table of up to 12 records
Q_C02big == {[BaseQ EXCEPT !.items = <<E(NRx), E(Fa(1))>>, !.hastop = TRUE, !.top = t, !.order = o, !.desc = d] : t \in {9, 10, 11}, o \in {<<>>, <<NRx>>}, d \in BOOLEAN}
Q_C02bigok == {qq \in Q_C02big : qq.order = <<>> => ~qq.desc}
\* DISTINCT must tell None from the empty string
Q_C02none == {[BaseQ EXCEPT !.items = its, !.distinct = di] : its \in {<<E(Fa(1))>>, <<E(Fa(1)), E(Fa(2))>>}, di \in {"uniq", "count"}}
Q_C02join == {[BaseQ EXCEPT !.items = <<E(Fa(1)), E(Fb(2))>>, !.join = "inner", !.jkeys = << <<1, 1>> >>,
                           !.order = o, !.desc = d, !.distinct = di, !.hastop = ht, !.top = t] :
                o \in {<<>>, <<Fa(1)>>, <<Fb(2)>>}, d \in BOOLEAN, di \in {"none", "uniq", "count"}, ht \in BOOLEAN, t \in 0..3}
Q_C02joinok == {qq \in Q_C02join : (qq.order = <<>> => ~qq.desc) /\ (~qq.hastop => qq.top = 0)}

\* ---------------------------------------------------------------- C05: update
RhsSet  == {L(120), Fa(1), Fa(2), <<"cat", Fa(1), L(120)>>, <<"NU">>}
AsgSet  == {<<k, r>> : k \in 1..3, r \in RhsSet}
AsgLists == {s \in SeqsBetween(AsgSet, 1, 2) : \A i, j \in 1..Len(s) : i # j => s[i][1] # s[j][1]}
Q_C05 == {[BaseQ EXCEPT !.kind = "update", !.assign = asg, !.where = w] : asg \in AsgLists, w \in {TRUEx, <<"nrodd">>, <<"eq", Fa(1), L(97)>>}}
\* == inside a right-hand side, three assignments, two-digit targets
Q_C05more == {[BaseQ EXCEPT !.kind = "update", !.assign = << <<1, <<"eq", Fa(1), Fa(2)>> >>, <<2, L(120)>> >>],
              [BaseQ EXCEPT !.kind = "update", !.assign = << <<1, L(120)>>, <<2, <<"cat", Fa(1), Fa(3)>> >>, <<3, Fa(1)>> >>, !.where = <<"ne", Fa(1), Fa(2)>>],
              [BaseQ EXCEPT !.kind = "update", !.assign = << <<3, Fa(2)>>, <<2, Fa(3)>>, <<1, <<"NU">> >> >>]}
\* `, aN ==` inside a right-hand side; a top-level `or` in the WHERE of an UPDATE JOIN
Q_C05tricky == {[BaseQ EXCEPT !.kind = "update", !.assign = << <<1, <<"idx0", Fa(2), <<"eq", Fa(1), Fa(2)>> >> >>, <<2, L(120)>> >>],
                [BaseQ EXCEPT !.kind = "update", !.assign = << <<2, <<"idx0", L(120), <<"eq", Fa(2), L(97)>> >> >> >>, !.where = <<"or", <<"eq", Fa(1), L(98)>>, <<"eq", Fa(2), L(98)>> >>]}
Q_C05joinor == {[BaseQ EXCEPT !.kind = "update", !.assign = << <<2, Fb(2)>> >>, !.join = j, !.jkeys = << <<1, 1>> >>, !.where = <<"or", <<"eq", Fa(2), L(97)>>, <<"eq", Fa(2), L(98)>> >>] : j \in {"inner", "left"}}
Q_C05wide == {[BaseQ EXCEPT !.kind = "update", !.assign = << <<10, L(120)>>, <<1, Fa(10)>> >>],
              [BaseQ EXCEPT !.kind = "update", !.assign = << <<1, Fa(11)>>, <<11, Fa(1)>> >>, !.where = <<"nrodd">>]}
Q_C05swap == {[BaseQ EXCEPT !.kind = "update", !.assign = << <<1, Fa(2)>>, <<2, Fa(1)>> >>, !.where = w] : w \in {TRUEx, <<"nrodd">>}}
Q_C05join == {[BaseQ EXCEPT !.kind = "update", !.assign = asg, !.where = w, !.join = j, !.jkeys = << <<1, 1>> >>] :
                asg \in {<< <<2, Fb(2)>> >>, << <<1, L(120)>>, <<2, <<"NU">> >> >>, << <<3, Fb(1)>> >>},
                w \in {TRUEx, <<"eq", Fb(2), L(97)>>}, j \in {"inner", "left", "strict"}}

\* ---------------------------------------------------------------- C07: header rules
ItemsHdr == {E(Fa(1)), E(Fa(3)), E(NRx), E(<<"cat", Fa(1), L(120)>>), <<"star">>, <<"astar">>,
             <<"as", E(Fa(2)), "zz">>, <<"as", E(<<"cat", Fa(1), Fa(2)>>), "Al_1">>, <<"unnest", <<"flds", <<1, 2>>>>>>,
             \* commas and brackets inside one item: a call, a literal, nested brackets; an alias after a literal that spells " as "
             E(<<"bmax", Fa(1), Fa(2)>>), E(<<"lit", <<44, 91, 40>>>>), E(<<"idx0", Fa(2), Fa(1)>>), <<"as", E(<<"idx0", Fa(1), L(93)>>), "ix">>, E(<<"dsub", Fa(2), Fa(1)>>), <<"as", E(<<"dsub", Fa(1), L(125)>>), "dx">>,
             <<"as", E(<<"cat", Fa(1), <<"lit", <<32, 97, 115, 32, 113>>>> >>), "asx">>, <<"agg", "COUNT", <<"int", 1>> >>}
\* (aggregates in the header lists need every other item to be constant per group: only lists the engine accepts are generated)
HdrListOk(s) == (\E k \in 1..Len(s) : IsAggItem(s[k])) => (\A k \in 1..Len(s) : IsAggItem(s[k]) \/ s[k][1] = "as" \/ (s[k][1] = "e" /\ s[k][2][1] = "lit"))
Q_C07 == {[BaseQ EXCEPT !.items = its, !.distinct = di, !.hastop = ht, !.top = 1] :
            its \in {s \in SeqsBetween(ItemsHdr, 1, 2) : OneUnnest(s) /\ ~(\E k \in 1..Len(s) : IsAggItem(s[k]))}, di \in {"none", "uniq", "count"}, ht \in BOOLEAN}
\* an alias after an item whose top-level node is a boolean operator
Q_C07bool == {[BaseQ EXCEPT !.items = its] : its \in {<< <<"as", E(<<"or", Fa(1), Fa(2)>>), "ob">>, E(Fa(2)) >>, << E(Fa(1)), <<"as", E(<<"and", Fa(1), Fa(2)>>), "nd">> >>, << <<"as", E(<<"eq", Fa(1), Fa(2)>>), "qq">> >>}}
Q_C07exc == {[BaseQ EXCEPT !.hasexc = TRUE, !.exc = ex, !.distinct = di] : ex \in {<<1>>, <<2, 1>>, <<3>>}, di \in {"uniq", "count"}}
Q_C07agg == {[BaseQ EXCEPT !.items = its] : its \in {<< <<"agg", "COUNT", <<"int", 1>> >>, <<"star">> >>, << <<"as", <<"agg", "MAX", Fa(2)>>, "mx">>, <<"agg", "COUNT", <<"int", 1>> >> >>, << E(L(120)), <<"agg", "MIN", Fa(1)>> >>}}
Q_C07join == {[BaseQ EXCEPT !.items = its, !.distinct = di, !.join = "left", !.jkeys = << <<1, 1>> >>] :
                its \in SeqsBetween({E(Fa(1)), E(Fb(1)), E(Fb(3)), <<"bstar">>, <<"star">>, <<"as", E(Fb(2)), "bb">>}, 1, 2), di \in {"none", "count"}}

\* ---------------------------------------------------------------- C08: hostile literal contents (keywords, metacharacters, variable-like text, quotes)
T(cs) == <<"lit", cs>>
HL_kw    == T(<<32, 119, 104, 101, 114, 101, 32, 115, 101, 108, 101, 99, 116, 32>>)             \* " where select "
HL_order == T(<<111, 114, 100, 101, 114, 32, 98, 121, 32, 97, 49, 32, 100, 101, 115, 99>>)      \* "order by a1 desc"
HL_meta  == T(<<42, 44, 61, 35, 59, 40, 41, 91, 93>>)                                           \* "*,=#;()[]"
HL_vars  == T(<<97, 49, 32, 98, 49, 32, 78, 82, 32, 97, 91, 49, 93>>)                           \* "a1 b1 NR a[1]"
HL_quote == T(<<105, 116, 39, 115, 32, 34, 113, 34, 32, 92>>)                                   \* it's "q" \
HL_join  == T(<<32, 108, 101, 102, 116, 32, 106, 111, 105, 110, 32, 98, 32, 111, 110, 32>>)     \* " left join b on "
HL_limit == T(<<108, 105, 109, 105, 116, 32, 49, 59>>)                                          \* "limit 1;"
HL_with  == T(<<119, 105, 116, 104, 32, 40, 104, 101, 97, 100, 101, 114, 41>>)                  \* "with (header)"
HL_dollar == T(<<36, 38, 32, 36, 36, 32, 36, 96, 32, 53, 36>>)                                  \* "$& $$ $` 5$"  (String.prototype.replace patterns; ends in $ before the closing quote)
HL_fmt   == T(<<123, 125, 32, 123, 48, 125, 32, 37, 115, 32, 37, 100, 32, 92, 49>>)            \* "{} {0} %s %d \1"  (format / regex-replacement hazards)
HostileLits == {HL_kw, HL_order, HL_meta, HL_vars, HL_quote, HL_join, HL_limit, HL_with, HL_dollar, HL_fmt}
Q_C08 == {[BaseQ EXCEPT !.items = <<E(l), E(Fa(1))>>] : l \in HostileLits}
         \cup {[BaseQ EXCEPT !.items = <<E(<<"cat", Fa(1), l>>)>>, !.where = <<"ne", Fa(2), l>>, !.order = << <<"cat", Fa(2), l>> >>, !.desc = TRUE] : l \in HostileLits}
         \cup {[BaseQ EXCEPT !.items = <<E(Fa(2)), <<"unnest", <<"lits", <<l[2], HL_meta[2]>> >> >> >>, !.hastop = TRUE, !.top = 3] : l \in HostileLits}
         \cup {[BaseQ EXCEPT !.kind = "update", !.assign = << <<1, l>>, <<2, <<"cat", Fa(1), l>> >> >>, !.where = <<"eq", Fa(1), L(97)>>] : l \in HostileLits}
         \cup {[BaseQ EXCEPT !.items = << <<"agg", "COUNT", <<"int", 1>> >>, E(l)>>, !.hasgroup = TRUE, !.group = << <<"cat", Fa(1), l>> >>] : l \in HostileLits}
Q_C08join == {[BaseQ EXCEPT !.items = <<E(l), E(Fb(2))>>, !.join = j, !.jkeys = << <<1, 1>> >>, !.where = <<"ne", Fb(2), l>>, !.distinct = "uniq"] : l \in HostileLits, j \in {"inner", "left"}}
\* D9: a literal containing an `a.ident` token with a header (acknowledged limitation: variables are searched inside literals)
HL_attr == T(<<97, 46, 122, 122>>)                                                              \* "a.zz"
Q_C08attr == {[BaseQ EXCEPT !.items = <<E(HL_attr), E(Fa(1))>>]}

\* ---------------------------------------------------------------- C13: type-agnostic queries over string cells, every front-end
Q_C13 == {[BaseQ EXCEPT !.items = <<E(Fa(1)), E(Fa(2))>>],
          [BaseQ EXCEPT !.items = <<E(Fa(2)), E(L(120)), E(<<"cat", Fa(1), Fa(2)>>)>>, !.where = <<"eq", Fa(1), L(97)>>],
          [BaseQ EXCEPT !.items = << <<"star">> >>, !.where = <<"ne", Fa(2), L(98)>>],
          [BaseQ EXCEPT !.items = <<E(NRx), <<"astar">> >>],
          [BaseQ EXCEPT !.items = <<E(Fa(1)), E(NFx)>>, !.order = <<Fa(2), Fa(1)>>, !.desc = TRUE],
          [BaseQ EXCEPT !.items = <<E(Fa(2))>>, !.distinct = "uniq", !.order = <<Fa(2)>>],
          [BaseQ EXCEPT !.items = <<E(Fa(1))>>, !.distinct = "count"],
          [BaseQ EXCEPT !.items = <<E(Fa(1)), E(Fa(2))>>, !.hastop = TRUE, !.top = 1],
          [BaseQ EXCEPT !.items = <<E(Fa(1)), <<"as", E(<<"cat", Fa(2), L(122)>>), "zz">> >>],
          [BaseQ EXCEPT !.items = <<E(Fa(1)), E(Fa(3))>>],
          [BaseQ EXCEPT !.items = <<Agg("COUNT", <<"int", 1>>), E(Fa(1))>>, !.hasgroup = TRUE, !.group = <<Fa(1)>>],
          [BaseQ EXCEPT !.hasexc = TRUE, !.exc = <<1>>],
          [BaseQ EXCEPT !.kind = "update", !.assign = << <<1, Fa(2)>>, <<2, Fa(1)>> >>, !.where = <<"nrodd">>],
          [BaseQ EXCEPT !.kind = "update", !.assign = << <<2, <<"cat", Fa(1), L(120)>> >> >>],
          [BaseQ EXCEPT !.items = <<E(P(Fa(1)))>>],
          [BaseQ EXCEPT !.items = <<E(Fa(1))>>, !.order = <<Fa(1)>>, !.kind = "update", !.assign = << <<1, L(120)>> >>],
          [BaseQ EXCEPT !.items = <<E(Fa(1))>>, !.where = <<"eq", Fa(1), L(97)>>, !.mistake = "where_assign"],
          \* TOP / LIMIT bound the OUTPUT (after dedup / aggregation), not the input scan: a front-end must not push them into its data source
          [BaseQ EXCEPT !.items = <<E(Fa(2))>>, !.distinct = "uniq", !.hastop = TRUE, !.top = 2],
          [BaseQ EXCEPT !.items = <<E(Fa(2))>>, !.distinct = "count", !.hastop = TRUE, !.top = 1],
          [BaseQ EXCEPT !.items = <<Agg("COUNT", <<"int", 1>>)>>, !.hastop = TRUE, !.top = 1],
          \* a falsy value that is not None (0) is a value: written as "0" by every front-end, no None warning
          [BaseQ EXCEPT !.items = <<E(Fa(1)), E(<<"mul", NRx, <<"int", 0>> >>)>>]}
Q_C13join == {[BaseQ EXCEPT !.items = <<E(Fa(1)), E(Fb(2))>>, !.join = j, !.jkeys = << <<1, 1>> >>] : j \in {"inner", "left", "strict"}}
             \cup {[BaseQ EXCEPT !.items = << <<"star">> >>, !.join = "inner", !.jkeys = << <<2, 1>> >>, !.order = <<Fb(2)>>],
                   [BaseQ EXCEPT !.kind = "update", !.assign = << <<2, Fb(2)>> >>, !.join = "left", !.jkeys = << <<1, 1>> >>]}
R_2x2p == [1..2 -> {S(97), S(98), S(112)}]     \* rectangular, with the poison value

\* ---------------------------------------------------------------- extension: user init code
\* C16 (same text over a different column layout): closed under exchanging the fields 1 and 2
Q_C16named == {[BaseQ EXCEPT !.items = its, !.where = w] :
                 its \in {<<E(Fa(1))>>, <<E(Fa(2))>>, <<E(Fa(1)), E(Fa(2))>>, <<E(Fa(2)), E(Fa(1))>>, <<E(<<"cat", Fa(1), L(120)>>)>>, <<E(<<"cat", Fa(2), L(120)>>)>>},
                 w \in {TRUEx, <<"eq", Fa(1), L(97)>>, <<"eq", Fa(2), L(97)>>}}
              \cup {[BaseQ EXCEPT !.kind = "update", !.assign = asg, !.where = w] :
                 asg \in {<< <<1, <<"cat", Fa(2), L(120)>> >> >>, << <<2, <<"cat", Fa(1), L(120)>> >> >>},
                 w \in {TRUEx, <<"eq", Fa(1), L(97)>>, <<"eq", Fa(2), L(97)>>}}
Q_EXTinit == {[BaseQ EXCEPT !.items = <<E(<<"udf", Fa(1)>>), E(NRx)>>, !.init = "def"],
              [BaseQ EXCEPT !.items = <<E(Fa(1))>>, !.where = <<"eq", <<"udf", Fa(2)>>, <<"lit", <<97, 117>>>> >>, !.init = "def", !.order = << <<"udf", Fa(1)>> >>],
              [BaseQ EXCEPT !.kind = "update", !.assign = << <<1, <<"udf", Fa(2)>> >> >>, !.init = "def"],
              [BaseQ EXCEPT !.items = <<E(Fa(1))>>, !.init = "raise"],
              [BaseQ EXCEPT !.items = << <<"agg", "COUNT", <<"int", 1>> >> >>, !.init = "raise"]}

\* ---------------------------------------------------------------- C15: every break point x query shapes
Q_C15 == {[BaseQ EXCEPT !.items = <<E(Fa(1)), E(NRx)>>],
          [BaseQ EXCEPT !.items = <<E(Fa(1)), E(NRx)>>, !.order = <<Fa(1)>>],
          [BaseQ EXCEPT !.items = <<E(Fa(1))>>, !.distinct = "uniq"],
          [BaseQ EXCEPT !.items = <<E(Fa(1))>>, !.distinct = "count"],
          [BaseQ EXCEPT !.items = <<E(Fa(1))>>, !.distinct = "count", !.order = <<Fa(1)>>, !.desc = TRUE],
          [BaseQ EXCEPT !.items = <<E(NRx), <<"unnest", <<"flds", <<1, 2>>>>>> >>],
          [BaseQ EXCEPT !.items = <<E(Fa(1))>>, !.hastop = TRUE, !.top = 2],
          [BaseQ EXCEPT !.kind = "update", !.assign = << <<1, L(120)>> >>],
          [BaseQ EXCEPT !.items = <<E(Fa(1)), E(Fb(2))>>, !.join = "inner", !.jkeys = << <<1, 1>> >>],
          [BaseQ EXCEPT !.items = <<E(Fb(2))>>, !.join = "left", !.jkeys = << <<1, 1>> >>, !.distinct = "uniq"],
          [BaseQ EXCEPT !.items = << <<"agg", "COUNT", <<"int", 1>> >>, E(Fa(1)) >>, !.hasgroup = TRUE, !.group = <<Fa(1)>>],
          [BaseQ EXCEPT !.items = << <<"agg", "COUNT", <<"int", 1>> >> >>, !.where = <<"eq", Fa(1), L(122)>>],
          [BaseQ EXCEPT !.items = <<E(Fa(1))>>, !.where = <<"eq", Fa(1), L(122)>>, !.order = <<Fa(1)>>, !.distinct = "count"]}

\* ---------------------------------------------------------------- C14: poisoned expressions, first offending record
V2P  == {S(97), S(112)}
R_poison == [1..2 -> V2P]
Q_C14 == {[BaseQ EXCEPT !.items = <<E(P(Fa(1))), E(NRx)>>],
          [BaseQ EXCEPT !.items = <<E(Fa(1))>>, !.where = <<"eq", P(Fa(1)), L(97)>>],
          [BaseQ EXCEPT !.items = <<E(Fa(1))>>, !.where = <<"eq", P(Fa(1)), L(97)>>, !.order = <<Fa(2)>>],
          [BaseQ EXCEPT !.items = <<E(Fa(1))>>, !.order = <<P(Fa(1))>>],
          [BaseQ EXCEPT !.items = <<E(Fa(2))>>, !.where = <<"eq", Fa(2), L(97)>>, !.order = <<P(Fa(1))>>],
          [BaseQ EXCEPT !.items = <<E(Fa(1))>>, !.distinct = "count", !.where = <<"ne", P(Fa(2)), L(122)>>],
          [BaseQ EXCEPT !.items = << <<"agg", "COUNT", <<"int", 1>> >> >>, !.hasgroup = TRUE, !.group = <<P(Fa(1))>>],
          [BaseQ EXCEPT !.items = << <<"agg", "ARRAY_AGG", P(Fa(1))>> >>],
          [BaseQ EXCEPT !.items = << <<"agg", "MAX", P(Fa(2))>>, E(Fa(1)) >>, !.hasgroup = TRUE, !.group = <<Fa(1)>>],
          [BaseQ EXCEPT !.kind = "update", !.assign = << <<1, P(Fa(2))>> >>],
          [BaseQ EXCEPT !.kind = "update", !.assign = << <<2, L(120)>> >>, !.where = <<"eq", P(Fa(1)), L(97)>>],
          [BaseQ EXCEPT !.kind = "update", !.assign = << <<3, L(120)>> >>, !.where = <<"eq", Fa(1), L(112)>>],
          [BaseQ EXCEPT !.items = <<E(<<"cat", Fa(1), Fa(3)>>)>>, !.where = <<"eq", Fa(1), L(112)>>],
          [BaseQ EXCEPT !.items = <<E(P(Fa(1)))>>, !.hastop = TRUE, !.top = 1],
          [BaseQ EXCEPT !.items = <<E(Fa(1)), <<"unnest", <<"rep", P(Fa(2))>>>> >>]}
\* for ragged tables: no sort key / numeric aggregate over a field that may be absent (None keys raise inside sorted(): I2)
Q_C14rag == {qq \in Q_C14 : (\A k \in 1..Len(qq.order) : qq.order[k] # Fa(2) /\ qq.order[k] # P(Fa(2))) /\ (\A k \in 1..Len(qq.items) : qq.items[k][1] # "agg" \/ qq.items[k][2] # "MAX")}
\* over tables with None cells: without GROUP BY / ORDER BY (a None key has no order: Python's sorted() raises, outside the tables of C02 / C03)
Q_C14ragN == {qq \in Q_C14rag : ~qq.hasgroup /\ qq.order = <<>>}
\* for the JavaScript port: without the query whose failure is Python's None + str TypeError (null + "x" is "nullx" in JS)
Q_C14js == {qq \in Q_C14 : qq.items # <<E(<<"cat", Fa(1), Fa(3)>>)>>}
\* full scans of ragged tables (incl. the empty record) for the field-count warning
Q_C14plain == {[BaseQ EXCEPT !.items = <<E(Fa(1)), E(NRx)>>], [BaseQ EXCEPT !.items = << <<"star">> >>], [BaseQ EXCEPT !.items = <<E(NFx)>>, !.where = <<"nrodd">>]}
Q_C14text == {[BaseQ EXCEPT !.items = <<E(Fa(1))>>, !.where = <<"eq", Fa(1), L(97)>>, !.mistake = "where_assign"],
              [BaseQ EXCEPT !.items = <<E(Fa(1))>>, !.mistake = "two_selects"],
              [BaseQ EXCEPT !.items = <<E(Fa(1))>>, !.hastop = TRUE, !.top = 1, !.mistake = "bad_limit"],
              [BaseQ EXCEPT !.hasexc = TRUE, !.exc = <<1>>, !.mistake = "unknown_except_field"],
              [BaseQ EXCEPT !.kind = "update", !.assign = << <<1, L(120)>> >>, !.mistake = "unknown_update_field"],
              [BaseQ EXCEPT !.kind = "update", !.assign = << <<1, L(120)>> >>, !.order = <<Fa(1)>>],
              [BaseQ EXCEPT !.items = <<E(Fa(1)), <<"unnest", <<"flds", <<1, 2>>>>>>, <<"unnest", <<"flds", <<2, 1>>>>>> >>],
              [BaseQ EXCEPT !.items = <<E(Fa(1)), <<"unnest", <<"flds", <<1, 2>>>>>>, <<"unnest", <<"flds", <<2, 1>>>>>> >>, !.where = <<"eq", Fa(1), L(112)>>],
              [BaseQ EXCEPT !.items = <<Agg("COUNT", <<"int", 1>>)>>, !.order = <<Fa(1)>>],
              [BaseQ EXCEPT !.items = <<Agg("MAX", Fa(2))>>, !.distinct = "uniq", !.where = <<"eq", Fa(1), L(112)>>],
              [BaseQ EXCEPT !.items = <<Agg("COUNT", <<"int", 1>>), E(Fa(1))>>, !.hasgroup = TRUE, !.group = <<Fa(1)>>, !.order = <<Fa(1)>>],
              [BaseQ EXCEPT !.items = <<E(Fa(1)), <<"as", E(Fa(2)), "zz">>, <<"star">> >>],
              [BaseQ EXCEPT !.items = <<E(Fa(1))>>, !.iofault = "hdr_len"],
              [BaseQ EXCEPT !.items = <<E(Fa(1))>>]}
Q_C14textjoin == {[BaseQ EXCEPT !.hasexc = TRUE, !.exc = <<1>>, !.join = "inner", !.jkeys = << <<1, 1>> >>],
                  [BaseQ EXCEPT !.items = <<E(Fa(1))>>, !.join = "inner", !.jkeys = << <<1, 1>> >>, !.iofault = "join_hdr_missing"]}
Q_C14join == {[BaseQ EXCEPT !.items = <<E(Fa(1)), E(Fb(1))>>, !.join = j, !.jkeys = ks, !.where = w] :
                j \in {"inner", "left", "strict"}, ks \in {<< <<1, 1>> >>, << <<2, 1>> >>, << <<1, 2>> >>, << <<1, 1>>, <<3, 2>> >>},
                w \in {TRUEx, <<"eq", P(Fb(1)), L(97)>>}}

\* ---------------------------------------------------------------- C03: aggregates
D(c)  == Str(<<c>>)                   \* one-digit numeric strings "1".."3"
N15   == Str(<<49, 46, 53>>)          \* "1.5"
Nums  == {D(49), D(50), D(51), N15}
R_num  == {<<k, v>> : k \in V2, v \in Nums}                       \* key column, numeric-string column
R_numi == {<<k, v>> : k \in V2, v \in {IntV(1), IntV(2), IntV(3)}}  \* int column
R_numf == {<<k, v>> : k \in V2, v \in {<<"q", 1, 2>>, <<"q", 3, 2>>, <<"q", 5, 2>>}}   \* float column
R_numN == {<<k, v, w>> : k \in V2, v \in {D(49), D(50)}, w \in {S(120), None}}       \* third column constant-or-None (D7)
AggFs == {"COUNT", "MIN", "MAX", "SUM", "AVG", "VARIANCE", "MEDIAN", "ARRAY_AGG", "ANY_VALUE"}
AggItems  == {Agg(f, Fa(2)) : f \in AggFs} \cup {Agg("COUNT", <<"int", 1>>), Agg("SUM", <<"mul", <<"num", Fa(2)>>, <<"int", 2>> >>)}
ItemsAgg  == AggItems \cup {E(Fa(1)), E(L(120)), E(Fa(2))}
GroupSet  == {<<>>, <<Fa(1)>>, <<Fa(1), Fa(2)>>}
Q_C03one == {[BaseQ EXCEPT !.items = <<it>>, !.hasgroup = g # <<>>, !.group = g, !.where = w, !.hastop = ht, !.top = 1] :
               it \in ItemsAgg, g \in GroupSet, w \in {TRUEx, <<"nrodd">>}, ht \in BOOLEAN}
\* for the JavaScript port: without int("1.5") (raises in Python, parseInt gives 1)
Q_C03js == {qq \in Q_C03one : qq.items[1] # Agg("SUM", <<"mul", <<"num", Fa(2)>>, <<"int", 2>> >>)}
Q_C03two == {[BaseQ EXCEPT !.items = its, !.hasgroup = g # <<>>, !.group = g] :
               its \in SeqsBetween(ItemsAgg, 2, 2), g \in GroupSet}
\* int / float columns: the numeric-string conversion Num(..) does not apply
AggItemsNum == {Agg(f, Fa(2)) : f \in AggFs} \cup {Agg("SUM", <<"mul", Fa(2), <<"int", 2>> >>)}
Q_C03num == {[BaseQ EXCEPT !.items = <<it, E(Fa(1))>>, !.hasgroup = g # <<>>, !.group = g] : it \in AggItemsNum, g \in {<<>>, <<Fa(1)>>}}
\* zero and negative values (a running extreme of 0 must not be mistaken for "no value yet")
R_numz == {<<k, v>> : k \in {S(97)}, v \in {D(48), Str(<<45, 50>>), D(52), Str(<<45, 55>>)}}       \* "0", "-2", "4", "-7"
\* numeric group keys whose decimal spellings sort differently from their values (2 < 9 < 10, -5 < -1)
R_numk  == {<<k, v>> : k \in {IntV(2), IntV(9), IntV(10), IntV(0 - 5), IntV(0 - 1)}, v \in {D(49)}}
R_numks == {<<k, v>> : k \in {D(50), D(57), Str(<<49, 48>>)}, v \in {D(49), D(50)}}
\* string keys one of which is a prefix of another, continued by a character below the double quote (space, !): JSON text order differs
R_keysp == {<<k, v>> : k \in {S(97), Str(<<97, 32>>), Str(<<97, 33, 98>>), S(98)}, v \in {D(49)}}
Q_C03key  == {[BaseQ EXCEPT !.items = <<E(Fa(1)), Agg("COUNT", <<"int", 1>>)>>, !.hasgroup = TRUE, !.group = <<Fa(1)>>],
              [BaseQ EXCEPT !.items = <<E(Fa(2)), E(Fa(1)), Agg("COUNT", <<"int", 1>>)>>, !.hasgroup = TRUE, !.group = <<Fa(2), Fa(1)>>]}
Q_C03keys == {[BaseQ EXCEPT !.items = <<Agg("MAX", Fa(2)), Agg("COUNT", <<"int", 1>>)>>, !.hasgroup = TRUE, !.group = <<<<"num", Fa(1)>> >>]}
\* numeric strings of different widths and signs: their text order differs from their numeric order (9 < 10 < 100, -5 < 9)
R_numw == {<<k, v>> : k \in {S(97)}, v \in {D(57), Str(<<49, 48>>), Str(<<49, 48, 48>>), Str(<<45, 53>>)}}
\* a non-aggregate column whose first value in a group is falsy ("") and a later one differs: still an error
R_keyse == {<<k, v>> : k \in {S(97)}, v \in {Str(<<>>), S(113)}}
Q_C03const == {[BaseQ EXCEPT !.items = <<E(Fa(2)), Agg("COUNT", <<"int", 1>>)>>, !.hasgroup = g # <<>>, !.group = g] : g \in {<<>>, <<Fa(1)>>}}
Q_C03med == {[BaseQ EXCEPT !.items = <<Agg(f, Fa(2)), E(Fa(1))>>, !.hasgroup = g # <<>>, !.group = g] :
               f \in {"MEDIAN", "VARIANCE", "AVG", "MIN", "MAX", "SUM"}, g \in {<<>>, <<Fa(1)>>}}
Q_C03bad == {[BaseQ EXCEPT !.items = << <<"aggplus", "MAX", Fa(2)>>, E(Fa(1))>>, !.hasgroup = TRUE, !.group = <<Fa(1)>>],
             [BaseQ EXCEPT !.items = << <<"aggattr", "MIN", Fa(2)>> >>],
             [BaseQ EXCEPT !.items = <<E(Fa(1)), <<"aggattr", "MAX", Fa(1)>> >>, !.where = <<"eq", Fa(1), L(98)>>],
             [BaseQ EXCEPT !.items = <<Agg("COUNT", <<"int", 1>>)>>, !.order = <<Fa(1)>>],
             [BaseQ EXCEPT !.items = <<Agg("MAX", Fa(2))>>, !.distinct = "uniq"],
             [BaseQ EXCEPT !.items = <<Agg("SUM", Fa(2)), E(Fa(1))>>, !.hasgroup = TRUE, !.group = <<Fa(1)>>, !.order = <<Fa(1)>>]}
\* lower-case min / max / sum with several arguments or an iterable keep their Python meaning (no aggregation)
Q_C03builtin == {[BaseQ EXCEPT !.items = <<it, E(Fa(1))>>, !.where = w] :
                   it \in {E(<<"bmin", Fa(1), Fa(2)>>), E(<<"bmax", Fa(1), Fa(2)>>), E(<<"bmaxl", Fa(2), Fa(1)>>), E(<<"bsum", <<"num", Fa(2)>>, <<"NR">> >>),
                           E(<<"bmin", <<"num", Fa(2)>>, <<"NR">> >>)},
                   w \in {TRUEx, <<"nrodd">>}}
Q_C03none == {[BaseQ EXCEPT !.items = <<E(Fa(3)), Agg("COUNT", <<"int", 1>>)>>, !.hasgroup = TRUE, !.group = <<Fa(1)>>],
              [BaseQ EXCEPT !.items = <<E(Fa(3)), Agg("MAX", Fa(2))>>]}
--------------------------------------------------------------------------
(* The engine refines the writer-protocol abstraction WriterChain (whose safety Apalache proves for any number of records): *)
AbsPc == CASE pc \in {"setupA", "setupB", "parse", "buildB", "header"} -> "pre"
           [] pc \in {"init", "loop", "rec", "match", "feed"} -> "loop"
           [] pc = "finish" -> "flush"
           [] pc = "done" -> "done"
           [] OTHER -> "failed"
AbsMode == IF Sorted(q) \/ Aggregated(q) \/ q.distinct = "count" THEN "buffered" ELSE "stream"
WC == INSTANCE WriterChain WITH apc <- AbsPc, astop <- (stop \/ mon.refused), mode <- AbsMode, m <- mon
ChainRefinement == WC!WSpec

--------------------------------------------------------------------------
(* Action coverage without TLC's -coverage option (its instrumentation of the recursive Ref operators exhausts a 24 GB heap even on the
   smallest configuration): one TLC register per action, incremented when the action is taken.  Registers are per worker, so the counting
   run uses -workers 1; the POSTCONDITION prints them. *)
ActionNames == <<"GrowA", "DoneA", "GrowB", "ChooseQ", "Parse", "BuildB", "SetHeader", "RunInit", "Pull", "StartRecord", "Match", "Feed", "Finish">>
Cnt(k) == TLCSet(k, TLCGet(k) + 1)
CountInit == Init /\ \A k \in 1..Len(ActionNames) : TLCSet(k, 0)
CountNext == \/ (GrowA /\ Cnt(1)) \/ (DoneA /\ Cnt(2)) \/ (GrowB /\ Cnt(3)) \/ (ChooseQ /\ Cnt(4)) \/ (Parse /\ Cnt(5)) \/ (BuildB /\ Cnt(6))
             \/ (SetHeader /\ Cnt(7)) \/ (RunInit /\ Cnt(8)) \/ (Pull /\ Cnt(9)) \/ (StartRecord /\ Cnt(10)) \/ (Match /\ Cnt(11))
             \/ (Feed /\ Cnt(12)) \/ (Finish /\ Cnt(13))
PrintCounts == PrintT(ToJson([action_counts |-> [k \in 1..Len(ActionNames) |-> <<ActionNames[k], TLCGet(k)>>]]))
=============================================================================
