------------------------------ MODULE Monitors ------------------------------
(***************************************************************************)
(* Property monitors (DESIGN R4a): small deterministic state machines over *)
(* the observable API events.  RbqlEngine steps them alongside its own     *)
(* actions and TLC proves the machine never drives them bad; EngineTrace   *)
(* folds the very same operators over event sequences recorded from the    *)
(* real engine.  They constrain exactly what the statements say.           *)
(***************************************************************************)
EXTENDS Naturals, Sequences

\* ---- writer protocol (C15): set_header at most once and before any write; no write after one returned
\* ---- FALSE; finish at most once and nothing after it
\* (the type annotations below are for Apalache, see WriterChain.tla; TLC ignores them)
\* @type: { hdr: Int, writes: Int, refused: Bool, fin: Int, bad: Bool };
M0 == [hdr |-> 0, writes |-> 0, refused |-> FALSE, fin |-> 0, bad |-> FALSE]
\* @type: ({ hdr: Int, writes: Int, refused: Bool, fin: Int, bad: Bool }, Str, Bool) => { hdr: Int, writes: Int, refused: Bool, fin: Int, bad: Bool };
MStep(m, e, ok) ==
    CASE e = "set_header" -> IF m.hdr = 0 /\ m.writes = 0 /\ m.fin = 0 THEN [m EXCEPT !.hdr = 1] ELSE [m EXCEPT !.bad = TRUE]
      [] e = "write"      -> IF m.refused \/ m.fin = 1 THEN [m EXCEPT !.bad = TRUE]
                             ELSE [m EXCEPT !.writes = @ + 1, !.refused = ~ok]
      [] e = "finish"     -> IF m.fin = 1 THEN [m EXCEPT !.bad = TRUE] ELSE [m EXCEPT !.fin = 1]
      [] OTHER            -> m

\* ---- pulls (C02, C15 "stops promptly", C04 "B is read completely before A")
\* @type: { a: Int, b: Int, bend: Bool, refusedSeen: Bool, pullAfterRefusal: Bool, aBeforeBEnd: Bool, bAfterEnd: Bool };
P0 == [a |-> 0, b |-> 0, bend |-> FALSE, refusedSeen |-> FALSE, pullAfterRefusal |-> FALSE, aBeforeBEnd |-> FALSE, bAfterEnd |-> FALSE]
\* @type: ({ a: Int, b: Int, bend: Bool, refusedSeen: Bool, pullAfterRefusal: Bool, aBeforeBEnd: Bool, bAfterEnd: Bool }, { e: Str, t: Str, end: Bool, ok: Bool }) => { a: Int, b: Int, bend: Bool, refusedSeen: Bool, pullAfterRefusal: Bool, aBeforeBEnd: Bool, bAfterEnd: Bool };
PStep(p, ev) ==
    CASE ev.e = "get_record" /\ ev.t = "a" ->
            [p EXCEPT !.a = @ + 1, !.pullAfterRefusal = @ \/ p.refusedSeen, !.aBeforeBEnd = @ \/ (p.b > 0 /\ ~p.bend)]
      [] ev.e = "get_record" /\ ev.t = "b" ->
            [p EXCEPT !.b = @ + 1, !.bend = ev.end, !.bAfterEnd = @ \/ p.bend]
      [] ev.e = "write" -> [p EXCEPT !.refusedSeen = @ \/ ~ev.ok]
      [] OTHER -> p
=============================================================================
