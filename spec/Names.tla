------------------------------- MODULE Names -------------------------------
(***************************************************************************)
(* Column-name variables and the header line (C09).                        *)
(*                                                                         *)
(* Part 1 -- names as Seq(Int) of code points.  Escape(name, q) is how a   *)
(* column name is written inside a["..."] / a['...'] (the name as a Python *)
(* string literal); Unescape is the fragment of the literal grammar the    *)
(* escaper can produce.  Theorems: Unescape(Escape(n, q)) = n; the escaped *)
(* text is a well-formed literal body (no bare quote, no dangling          *)
(* backslash); hence distinct names give distinct variable texts.          *)
(*                                                                         *)
(* Part 2 -- the header / no-header state machine of the CSV reader:       *)
(* Construct(flag) pre-reads the first record, an optional query modifier  *)
(* WITH (header|headers|noheader|noheaders) overrides the caller's flag,   *)
(* GetRecord emits.  Theorem: in header mode the first line is never       *)
(* emitted and the first data record is number 1; in no-header mode every  *)
(* line is emitted.                                                        *)
(*                                                                         *)
(* TLC enumerates every name within the bound x quote style x column       *)
(* position x caller flag x modifier and prints one replay case each.      *)
(***************************************************************************)
EXTENDS CsvDialect, TLC, Json

BSL == 92
DQ  == 34
SQc == 39
LFc == 10
CRc == 13
TABc == 9

EscChar(c, qc) == CASE c = BSL  -> <<BSL, BSL>>
                    [] c = LFc  -> <<BSL, 110>>
                    [] c = CRc  -> <<BSL, 114>>
                    [] c = TABc -> <<BSL, 116>>
                    [] c = qc   -> <<BSL, qc>>
                    [] OTHER    -> <<c>>
RECURSIVE Escape(_, _)
Escape(nm, qc) == IF nm = <<>> THEN <<>> ELSE EscChar(nm[1], qc) \o Escape(Tail(nm), qc)

UnescChar(c) == CASE c = 110 -> LFc [] c = 114 -> CRc [] c = 116 -> TABc [] OTHER -> c
RECURSIVE Unescape(_)
Unescape(s) == IF s = <<>> THEN <<>>
               ELSE IF s[1] = BSL /\ Len(s) >= 2 THEN <<UnescChar(s[2])>> \o Unescape(SubSeq(s, 3, Len(s)))
               ELSE <<s[1]>> \o Unescape(Tail(s))

\* a literal body: every quote character is preceded by an odd run of backslashes... simply: scanning left to right,
\* a backslash consumes the next character; no bare quote and no backslash at the very end
RECURSIVE WellFormedBody(_, _)
WellFormedBody(s, qc) == IF s = <<>> THEN TRUE
                         ELSE IF s[1] = BSL THEN Len(s) >= 2 /\ WellFormedBody(SubSeq(s, 3, Len(s)), qc)
                         ELSE s[1] # qc /\ s[1] # LFc /\ s[1] # CRc /\ WellFormedBody(Tail(s), qc)

IsLetter(c) == (c >= 97 /\ c <= 122) \/ (c >= 65 /\ c <= 90) \/ c = 95
IsIdChar(c) == IsLetter(c) \/ (c >= 48 /\ c <= 57)
IsIdent(nm) == nm # <<>> /\ IsLetter(nm[1]) /\ \A k \in 1..Len(nm) : IsIdChar(nm[k])

\* names the source acknowledges it cannot handle: they contain an `a.ident` / `b.ident` token
Excluded(nm) == \E k \in 1..(Len(nm) - 2) : nm[k] \in {97, 98} /\ nm[k + 1] = 46 /\ IsLetter(nm[k + 2]) /\ (k = 1 \/ ~IsIdChar(nm[k - 1]))

--------------------------------------------------------------------------
CONSTANTS NameAlphabet, MaxName, FlagSet, ModifierSet, EmitCases, MUT

VARIABLES name, quote, pos, flag, modifier,      \* the case
          pc, hasHeader, shouldEmit, nextLine, emitted

vars == <<name, quote, pos, flag, modifier, pc, hasHeader, shouldEmit, nextLine, emitted>>

Lines == <<0, 1, 2>>          \* line 0 is the first line of the file (the header line in header mode)

Init == /\ name = <<>> /\ quote = DQ /\ pos = 1 /\ flag = FALSE /\ modifier = "none"
        /\ pc = "setup" /\ hasHeader = FALSE /\ shouldEmit = FALSE /\ nextLine = 1 /\ emitted = <<>>

Grow == /\ pc = "setup" /\ Len(name) < MaxName
        /\ \E c \in NameAlphabet : name' = Append(name, c)
        /\ UNCHANGED <<quote, pos, flag, modifier, pc, hasHeader, shouldEmit, nextLine, emitted>>
Choose == /\ pc = "setup" /\ name # <<>> /\ ~Excluded(name)
          /\ \E qc \in {DQ, SQc}, p \in {1, 2}, f \in FlagSet, m \in ModifierSet :
               quote' = qc /\ pos' = p /\ flag' = f /\ modifier' = m
          /\ pc' = "construct"
          /\ UNCHANGED <<name, hasHeader, shouldEmit, nextLine, emitted>>

\* CSVRecordIterator.__init__: the first record is pre-read; it is replayed as data unless the caller says it is a header
Construct == /\ pc = "construct"
             /\ hasHeader' = flag /\ shouldEmit' = ~flag /\ nextLine' = 2
             /\ pc' = "modifier"
             /\ UNCHANGED <<name, quote, pos, flag, modifier, emitted>>
\* handle_query_modifier: WITH (header) / WITH (noheader) override the caller's flag
Modifier == /\ pc = "modifier"
            /\ IF modifier \in {"header", "headers"} THEN hasHeader' = TRUE /\ shouldEmit' = (MUT = "modifier_keeps_emit" /\ shouldEmit)
               ELSE IF modifier \in {"noheader", "noheaders"} THEN hasHeader' = FALSE /\ shouldEmit' = TRUE
               ELSE UNCHANGED <<hasHeader, shouldEmit>>
            /\ pc' = "read"
            /\ UNCHANGED <<name, quote, pos, flag, modifier, nextLine, emitted>>
GetRecord == /\ pc = "read"
             /\ IF shouldEmit THEN /\ emitted' = Append(emitted, 0) /\ shouldEmit' = FALSE /\ UNCHANGED <<nextLine, pc>>
                ELSE IF nextLine <= 3 THEN /\ emitted' = Append(emitted, nextLine - 1) /\ nextLine' = nextLine + 1 /\ UNCHANGED <<shouldEmit, pc>>
                ELSE /\ pc' = "done" /\ UNCHANGED <<emitted, shouldEmit, nextLine>>
             /\ UNCHANGED <<name, quote, pos, flag, modifier, hasHeader>>

Next == Grow \/ Choose \/ Construct \/ Modifier \/ GetRecord
Spec == Init /\ [][Next]_vars

EffectiveHeader == IF modifier \in {"header", "headers"} THEN TRUE ELSE IF modifier \in {"noheader", "noheaders"} THEN FALSE ELSE flag

EscapeRoundTrip == pc # "setup" => /\ Unescape(Escape(name, DQ)) = name /\ Unescape(Escape(name, SQc)) = name
                                   /\ WellFormedBody(Escape(name, DQ), DQ) /\ WellFormedBody(Escape(name, SQc), SQc)
HeaderNeverData == pc = "done" => /\ hasHeader = EffectiveHeader
                                  /\ emitted = (IF EffectiveHeader THEN <<1, 2>> ELSE <<0, 1, 2>>)

\* the header line of a CSV file holding this name (quoted_rfc dialect, delimiter ","), second column named "k"
HeaderNames == IF pos = 1 THEN <<name, <<107>>>> ELSE <<<<107>>, name>>
CsvHeaderLine == JoinBy([k \in 1..2 |-> RfcQuoteField(HeaderNames[k], <<44>>)], <<44>>)

Emit == (pc = "done" /\ EmitCases) =>
        PrintT(ToJson([name |-> name, quote |-> quote, pos |-> pos, flag |-> flag, modifier |-> modifier,
                       escaped |-> Escape(name, quote), ident |-> IsIdent(name), header |-> HeaderNames, csvheader |-> CsvHeaderLine,
                       effective |-> EffectiveHeader, emitted |-> emitted]))
=============================================================================
