------------------------------ MODULE Pipeline ------------------------------
(***************************************************************************)
(* query_csv end to end at the level of TEXT (C13 "CSV files via the       *)
(* library", C10): what the output file of                                 *)
(*   query_csv(query, in_file, delimiter, policy_in, out_file, ...)         *)
(* must contain, as the composition of the three specifications            *)
(*     RefRead (CsvText)  ;  the query on records  ;  WriteTable (CsvCodec) *)
(* for input texts with quotes, both delimiters, spaces and line breaks in *)
(* them -- the cells are NOT CSV-inert here, unlike in the engine families *)
(* of C13.  Two queries whose meaning on records needs no engine model:    *)
(*   1: select *        2: select NR, a1                                   *)
(* TLC enumerates every input text up to the bound x input policy x output *)
(* policy x query, checks the composition theorem ReReadable and emits the *)
(* expected output text and warnings for the replay.                       *)
(***************************************************************************)
EXTENDS CsvCodec

CONSTANTS PAlphabet, PMaxLen, InPolicies, OutPolicies, OutDlm, WithHeader,
          PEnc,        \* "utf-8" or "latin-1": the file encoding (decides what a byte order mark looks like in the text)
          PQueries     \* subset of {1, 2}; query 2 needs a first field in every record (not so under the whitespace policy: a blank line has no field)

VARIABLES itext, ipol, opol, qk, ppc
pvars == <<itext, ipol, opol, qk, ppc>>

PInit == WInit /\ itext = <<>> /\ ipol = "quoted" /\ opol = "quoted" /\ qk = 1 /\ ppc = "grow"
PGrow == /\ ppc = "grow" /\ Len(itext) < PMaxLen
         /\ \E c \in PAlphabet : itext' = Append(itext, c)
         /\ UNCHANGED <<ipol, opol, qk, ppc>> /\ UNCHANGED wvars
PChoose == /\ ppc = "grow"
           /\ \E pi \in InPolicies, po \in OutPolicies, k \in PQueries : ipol' = pi /\ opol' = po /\ qk' = k
           /\ ppc' = "done"
           /\ UNCHANGED itext /\ UNCHANGED wvars
PNext == PGrow \/ PChoose

InDlm == IF ipol = "monocolumn" THEN <<>> ELSE <<DlmA>>
ODlm  == <<OutDlm>>
Rd    == RefRead(itext, InDlm, ipol, 0, PEnc)
\* with a header the first record is the header line: it is not data (NR starts after it) and is written first, as it is for select *,
\* as <<"NR", name of a1>> for query 2 (bare variable and column name, C07)
Data(recs) == IF WithHeader /\ recs # <<>> THEN Tail(recs) ELSE recs
Digit1(k) == <<48 + k>>                                  \* record numbers stay below 10 within the bound
QueryOut(recs) ==
    LET d == Data(recs)
        body == IF qk = 1 THEN d ELSE [k \in 1..Len(d) |-> <<Digit1(k), d[k][1]>>]
        hdr  == IF WithHeader /\ recs # <<>> THEN << IF qk = 1 THEN recs[1] ELSE <<<<78, 82>>, recs[1][1]>> >> ELSE <<>>
    IN hdr \o body
OutT  == QueryOut(Rd.recs)
Wr    == WriteTable(OutT, ODlm, opol, "LF")
\* with a header, `select *` over a data record whose width differs from the header's cannot be written under that header: the
\* query fails at the first such record (observed behaviour; star forms have a fixed width only over rectangular tables, C07)
HdrErr == IF WithHeader /\ qk = 1 /\ Rd.recs # <<>>
          THEN LET d == Data(Rd.recs)
                   ks == {k \in 1..Len(d) : Len(d[k]) # Len(Rd.recs[1])} IN
               IF ks = {} THEN 0 ELSE CHOOSE x \in ks : \A y \in ks : x <= y
          ELSE 0
\* the field-count warning counts the header line as record 1 (observation I11): it is RefRead's, over all lines
RaggedData == Rd.ragged

PDone == ppc = "done"
\* composition theorem: whenever the query result is representable in the output dialect, reading the output file back yields it
ReReadable == (PDone /\ ~Rd.err /\ HdrErr = 0 /\ RepresentableE(OutT, ODlm, opol, PEnc)) =>
              LET back == ReadBackE(Wr.text, ODlm, opol, PEnc) IN back.recs = Expected(OutT, opol) /\ ~back.err /\ back.firstdef = 0

PCase == [text |-> itext, enc |-> PEnc, indlm |-> InDlm, ipol |-> ipol, opol |-> opol, qk |-> qk, header |-> WithHeader,
          \* records are processed as they are read: a width mismatch in an earlier record is met before a malformed later line
          rderr |-> (Rd.err /\ HdrErr = 0), errnr |-> Rd.errnr, errnl |-> Rd.errnl, hdrerr |-> HdrErr,
          out |-> IF Rd.err \/ HdrErr # 0 THEN <<>> ELSE Wr.text,
          bom |-> Rd.bom, firstdef |-> Rd.firstdef, ragged |-> IF Rd.err THEN <<>> ELSE RaggedData,
          wdelim |-> (~Rd.err /\ Wr.wdelim)]
PEmit == (PDone /\ EmitCases) => PrintT(ToJson(PCase))
=============================================================================
