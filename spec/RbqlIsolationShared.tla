---------------------------- MODULE RbqlIsolationShared ----------------------------
(***************************************************************************)
(* Two queries in one interpreter (C16).  Two instances of RbqlEngine over *)
(* disjoint variables (the Python architecture: every call of rbql.query   *)
(* builds its own RBQLContext) take their steps in ANY interleaving; the   *)
(* history variable `sched` records which engine performed each observable *)
(* API event (b.get_record, set_header, a.get_record, write, finish).      *)
(* Theorem (TLC): whatever the interleaving, each engine ends with its     *)
(* solo result Ref.  Every terminal state is one schedule, printed for     *)
(* replay with two real threads under a cooperative scheduler.             *)
(* MUTANT: engine 2 uses engine 1's uset, aggst, aggcols, aggkeys (one module-global query context, the *)
(* rbql-js architecture): TLC must report NonInterference violated.         *)
(***************************************************************************)
EXTENDS Naturals, Sequences, TLC, Json

CONSTANTS Queries1, Queries2, RecsA, MaxA, EmitCases

VARIABLES q1, A1, B1, hasHdr1, breakAt1, pc1, bi1, maxlenB1, nr1, nu1, pulled1, matches1, cands1, candkey1, uset1, stop1, sortbuf1, seen1, counts1, nw1, aggst1, aggcols1, aggkeys1, fphase1, fq1, out1, hdr1, hdrset1, leafcalls1, mon1, err1,
          q2, A2, B2, hasHdr2, breakAt2, pc2, bi2, maxlenB2, nr2, nu2, pulled2, matches2, cands2, candkey2, stop2, sortbuf2, seen2, counts2, nw2, fphase2, fq2, out2, hdr2, hdrset2, leafcalls2, mon2, err2,
          sched

vars1 == <<q1, A1, B1, hasHdr1, breakAt1, pc1, bi1, maxlenB1, nr1, nu1, pulled1, matches1, cands1, candkey1, uset1, stop1, sortbuf1, seen1, counts1, nw1, aggst1, aggcols1, aggkeys1, fphase1, fq1, out1, hdr1, hdrset1, leafcalls1, mon1, err1>>
vars2 == <<q2, A2, B2, hasHdr2, breakAt2, pc2, bi2, maxlenB2, nr2, nu2, pulled2, matches2, cands2, candkey2, stop2, sortbuf2, seen2, counts2, nw2, fphase2, fq2, out2, hdr2, hdrset2, leafcalls2, mon2, err2>>

E1 == INSTANCE RbqlEngine WITH q <- q1, A <- A1, B <- B1, hasHdr <- hasHdr1, breakAt <- breakAt1, pc <- pc1, bi <- bi1, maxlenB <- maxlenB1, nr <- nr1, nu <- nu1, pulled <- pulled1, matches <- matches1, cands <- cands1, candkey <- candkey1, uset <- uset1, stop <- stop1, sortbuf <- sortbuf1, seen <- seen1, counts <- counts1, nw <- nw1, aggst <- aggst1, aggcols <- aggcols1, aggkeys <- aggkeys1, fphase <- fphase1, fq <- fq1, out <- out1, hdr <- hdr1, hdrset <- hdrset1, leafcalls <- leafcalls1, mon <- mon1, err <- err1,
        Queries <- Queries1, RecsB <- {}, MaxB <- 0, HdrModes <- {FALSE}, BreakPoints <- {0}, Cyclic <- FALSE, EmitCases <- FALSE, MUT <- ""
E2 == INSTANCE RbqlEngine WITH q <- q2, A <- A2, B <- B2, hasHdr <- hasHdr2, breakAt <- breakAt2, pc <- pc2, bi <- bi2, maxlenB <- maxlenB2, nr <- nr2, nu <- nu2, pulled <- pulled2, matches <- matches2, cands <- cands2, candkey <- candkey2, uset <- uset1, stop <- stop2, sortbuf <- sortbuf2, seen <- seen2, counts <- counts2, nw <- nw2, aggst <- aggst1, aggcols <- aggcols1, aggkeys <- aggkeys1, fphase <- fphase2, fq <- fq2, out <- out2, hdr <- hdr2, hdrset <- hdrset2, leafcalls <- leafcalls2, mon <- mon2, err <- err2,
        Queries <- Queries2, RecsB <- {}, MaxB <- 0, HdrModes <- {FALSE}, BreakPoints <- {0}, Cyclic <- FALSE, EmitCases <- FALSE, MUT <- ""

Init == E1!Init /\ E2!Init /\ sched = <<>>

\* an observable API event happened in this step of engine i
Vis1 == pulled1' # pulled1 \/ leafcalls1' # leafcalls1 \/ mon1' # mon1 \/ bi1' # bi1
Vis2 == pulled2' # pulled2 \/ leafcalls2' # leafcalls2 \/ mon2' # mon2 \/ bi2' # bi2

InSetup(p) == p \in {"setupA", "setupB"}

Step1 == /\ E1!Next /\ UNCHANGED vars2
         /\ sched' = IF Vis1 THEN Append(sched, 1) ELSE sched
\* the second case is chosen after the first (setup steps are not part of the schedule)
Step2 == /\ ~InSetup(pc1) /\ (InSetup(pc2) => pc1 = "parse")
         /\ E2!Next /\ UNCHANGED <<q1, A1, B1, hasHdr1, breakAt1, pc1, bi1, maxlenB1, nr1, nu1, pulled1, matches1, cands1, candkey1, stop1, sortbuf1, seen1, counts1, nw1, fphase1, fq1, out1, hdr1, hdrset1, leafcalls1, mon1, err1>>
         /\ sched' = IF Vis2 THEN Append(sched, 2) ELSE sched
Hold1 == InSetup(pc2) => InSetup(pc1) \/ pc1 = "parse"

Next == (Step1 /\ (pc1 = "parse" => ~InSetup(pc2))) \/ Step2
Spec == Init /\ [][Next]_<<vars1, vars2, sched>>

\* fingerprint view without the history variable: all interleavings are still explored, without one state per path
IsoView == <<vars1, vars2>>

\* state constraint of the schedule-emission configs: both tables are << <<a,b>>, <<p,a>> >> once chosen
FixedTables == (InSetup(pc1) \/ (Len(A1) = 2 /\ A1[1] # A1[2] /\ A1[1][1] = <<"s", <<97>>>>)) /\ (InSetup(pc2) \/ (Len(A2) = 2 /\ A2[1] # A2[2] /\ A2[1][1] = <<"s", <<97>>>>))

T1 == pc1 \in {"done", "error"}
T2 == pc2 \in {"done", "error"}

\* C16: each query's result is its solo result, for every interleaving
NonInterference == /\ E1!Correct /\ E1!ErrCorrect /\ E1!Protocol
                   /\ E2!Correct /\ E2!ErrCorrect /\ E2!Protocol

Emit == (T1 /\ T2 /\ EmitCases) => PrintT(ToJson([c1 |-> E1!CaseOf, c2 |-> E2!CaseOf, sched |-> sched]))
=============================================================================
