-------------------------------- MODULE Utf8 --------------------------------
(***************************************************************************)
(* The incremental UTF-8 decoder as a machine fed chunk by chunk: pending  *)
(* bytes of an incomplete sequence are carried to the next chunk; an       *)
(* invalid byte, or end of input inside a sequence, is an error.  TLC      *)
(* checks that for every byte string within the bound and EVERY partition  *)
(* into chunks (chosen step by step) the incremental decoder returns       *)
(* Decode(bytes) or fails exactly when ~Valid(bytes).  The mutant          *)
(* "nonstreaming_decoder" decodes each chunk on its own (what rbql-js's    *)
(* TextDecoder did without {stream: true}: defect D6).                     *)
(***************************************************************************)
EXTENDS Utf8Ops, TLC, Json

--------------------------------------------------------------------------
(* incremental decoder as a machine; the partition is chosen chunk by chunk *)
CONSTANTS ByteAlphabet, MaxBytes, EmitCases, MUT

VARIABLES bytes, pc, pos, pending, chars, failed
vars == <<bytes, pc, pos, pending, chars, failed>>

Init == bytes = <<>> /\ pc = "setup" /\ pos = 1 /\ pending = <<>> /\ chars = <<>> /\ failed = FALSE

Grow == /\ pc = "setup" /\ Len(bytes) < MaxBytes
        /\ \E b \in ByteAlphabet : bytes' = Append(bytes, b)
        /\ UNCHANGED <<pc, pos, pending, chars, failed>>
Start == /\ pc = "setup" /\ pc' = "feed" /\ UNCHANGED <<bytes, pos, pending, chars, failed>>

\* one chunk of n bytes arrives (any n: the delivery schedule)
Feed == /\ pc = "feed" /\ pos <= Len(bytes)
        /\ \E n \in 1..(Len(bytes) - pos + 1) :
             LET chunk == SubSeq(bytes, pos, pos + n - 1)
                 r == Consume(chunk, IF MUT = "nonstreaming_decoder" THEN <<>> ELSE pending, <<>>) IN
             /\ pos' = pos + n
             /\ IF ~r.ok \/ (MUT = "nonstreaming_decoder" /\ r.pending # <<>>)
                THEN /\ failed' = TRUE /\ pc' = "done" /\ UNCHANGED <<chars, pending>>
                ELSE /\ chars' = chars \o r.chars /\ pending' = r.pending /\ UNCHANGED <<failed, pc>>
        /\ UNCHANGED bytes

\* end of input: a sequence still pending is an error
End == /\ pc = "feed" /\ pos = Len(bytes) + 1
       /\ failed' = (pending # <<>>) /\ pc' = "done"
       /\ UNCHANGED <<bytes, pos, pending, chars>>

Next == Grow \/ Start \/ Feed \/ End
Spec == Init /\ [][Next]_vars

Done == pc = "done"
\* chunk-independence: whatever the partition, the incremental decoder agrees with the declarative one
DecoderCorrect == Done => /\ failed = ~Valid(bytes)
                          /\ (~failed => chars = Decode(bytes).chars)
\* encoding then decoding is the identity (sanity of the declarative pair, on the decoded texts)
RoundTrip == (Done /\ ~failed) => Encode(chars) = bytes

Emit == (Done /\ EmitCases) => PrintT(ToJson([bytes |-> bytes, valid |-> Valid(bytes), chars |-> Decode(bytes).chars]))
=============================================================================
