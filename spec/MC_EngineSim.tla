---------------------------- MODULE MC_EngineSim ----------------------------
(***************************************************************************)
(* The unrestricted cross product of the query features (item lists of up  *)
(* to three items, WHERE, ORDER BY, DISTINCT [COUNT], TOP, JOIN with every *)
(* key shape) over bigger tables is far too large to enumerate: it is      *)
(* sampled with `tlc -simulate`.  The query is drawn component by          *)
(* component with RandomElement (one successor per draw), the tables by    *)
(* the usual setup steps; everything after the draw is RbqlEngine's own    *)
(* Next, so every sampled behaviour is checked against the same            *)
(* invariants and printed as a replay case.                                *)
(***************************************************************************)
EXTENDS MC_Engine

ItemsMix == ItemsPlain \cup {E(Fb(1)), E(Fb(2)), <<"bstar">>, E(<<"cat", Fa(1), Fb(1)>>), <<"as", E(Fa(2)), "zz">>}
ItemListsMix == {s \in SeqsBetween(ItemsMix, 1, 3) : OneUnnest(s)}

ChooseQSim ==
    /\ pc = "setupB"
    /\ LET its == RandomElement(ItemListsMix)
           w   == RandomElement(WhereSet \cup WhereJoin)
           o   == RandomElement({<<>>, <<>>, <<Fa(1)>>, <<Fa(2), Fa(1)>>})      \* no b-field keys: None keys of unmatched LEFT JOIN rows raise inside sorted() (I2)
           di  == RandomElement({"none", "none", "uniq", "count"})
           ht  == RandomElement(BOOLEAN)
           j   == RandomElement({"inner", "left"})
           ks  == RandomElement(JoinKeys)
       IN q' = [BaseQ EXCEPT !.items = its, !.where = w, !.order = o, !.desc = (o # <<>> /\ RandomElement(BOOLEAN)), !.distinct = di,
                             !.hastop = ht, !.top = (IF ht THEN RandomElement(0..3) ELSE 0), !.join = j, !.jkeys = ks]
    /\ hasHdr' = RandomElement(HdrModes) /\ breakAt' = 0
    /\ pc' = "parse"
    /\ UNCHANGED <<A, B>> /\ UNCHANGED runvars

SimNext == GrowA \/ DoneA \/ GrowB \/ ChooseQSim \/ Parse \/ BuildB \/ SetHeader \/ RunInit \/ Pull \/ StartRecord \/ Match \/ Feed \/ Finish
=============================================================================
