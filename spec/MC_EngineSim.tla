---------------------------- MODULE MC_EngineSim ----------------------------
(***************************************************************************)
(* The unrestricted cross product of the query features (item lists of up  *)
(* to three items, WHERE, ORDER BY, DISTINCT [COUNT], TOP, JOIN with every *)
(* key shape) over bigger tables is far too large to enumerate: it is      *)
(* sampled with `tlc -simulate`.  The query is drawn component by          *)
(* component with RandomElement (one successor per draw), the tables by    *)
(* the usual setup steps; everything after the draw is RbqlEngine's own    *)
(* Next, so every sampled behaviour is checked against the same            *)
(* invariants and printed as a replay case.                                *)
(***************************************************************************)
EXTENDS MC_Engine

ItemsMix == ItemsPlain \cup {E(Fb(1)), E(Fb(2)), <<"bstar">>, E(<<"cat", Fa(1), Fb(1)>>), <<"as", E(Fa(2)), "zz">>}
ItemListsMix == {s \in SeqsBetween(ItemsMix, 1, 3) : OneUnnest(s)}

ChooseQSim ==
    /\ pc = "setupB"
    /\ LET its == RandomElement(ItemListsMix)
           w   == RandomElement(WhereSet \cup WhereJoin)
           o   == RandomElement({<<>>, <<>>, <<Fa(1)>>, <<Fa(2), Fa(1)>>})      \* no b-field keys: None keys of unmatched LEFT JOIN rows raise inside sorted() (I2)
           di  == RandomElement({"none", "none", "uniq", "count"})
           ht  == RandomElement(BOOLEAN)
           j   == RandomElement({"inner", "left"})
           ks  == RandomElement(JoinKeys)
       IN q' = [BaseQ EXCEPT !.items = its, !.where = w, !.order = o, !.desc = (o # <<>> /\ RandomElement(BOOLEAN)), !.distinct = di,
                             !.hastop = ht, !.top = (IF ht THEN RandomElement(0..3) ELSE 0), !.join = j, !.jkeys = ks]
    /\ hasHdr' = RandomElement(HdrModes) /\ breakAt' = 0
    /\ pc' = "parse"
    /\ UNCHANGED <<A, B>> /\ UNCHANGED runvars

\* ---- a broader draw: every query kind (SELECT plain / aggregated / EXCEPT, UPDATE), with or without a join, with a fault plan ----
PickW(j)  == RandomElement(IF j = "none" THEN WhereSet ELSE WhereSet \cup WhereJoin)
ItemsNoJ  == ItemsPlain \cup {<<"as", E(Fa(2)), "zz">>, <<"star">>}
ItemListsNoJ == {s \in SeqsBetween(ItemsNoJ, 1, 3) : OneUnnest(s)}
\* aggregate arguments and group keys are the first field (always present: a missing field is None, and None has no order / no numeric value)
AggLists  == SeqsBetween({Agg("COUNT", <<"int", 1>>), Agg("MAX", Fa(1)), Agg("MIN", Fa(1)), Agg("ARRAY_AGG", Fa(1)), Agg("ANY_VALUE", Fa(1)), Agg("COUNT", Fa(2)), E(Fa(1)), E(L(120))}, 1, 2)
AssignsSim == {<< <<1, Fa(2)>> >>, << <<2, <<"cat", Fa(1), L(120)>> >> >>, << <<1, Fa(2)>>, <<2, Fa(1)>> >>, << <<3, L(122)>> >>, << <<1, NRx>> >>}
ChooseQSim2 ==
    /\ pc = "setupB"
    \* every draw is bound once (a LET definition would be re-evaluated, i.e. re-drawn, at each use)
    /\ \E kind \in {RandomElement({"select", "select", "select", "select", "agg", "except", "update"})},
          j    \in {RandomElement({"none", "none", "inner", "left", "strict"})},
          ht   \in {RandomElement(BOOLEAN)},
          o    \in {RandomElement({<<>>, <<>>, <<Fa(1)>>, << <<"cat", Fa(1), L(120)>>, NRx>>})},      \* keys over the first field only (a missing field is None: no order)
          g    \in {RandomElement({<<>>, <<Fa(1)>>, <<Fa(1)>>})} :
       LET ks == IF j = "none" THEN <<>> ELSE RandomElement(JoinKeys)
           w  == PickW(j)
           tp == IF ht THEN RandomElement(0..3) ELSE 0
       IN q' = CASE kind = "select" ->
                      [BaseQ EXCEPT !.items = IF j = "none" THEN RandomElement(ItemListsNoJ) ELSE RandomElement(ItemListsMix), !.where = w, !.order = o,
                                    !.desc = (o # <<>> /\ RandomElement(BOOLEAN)), !.distinct = RandomElement({"none", "none", "uniq", "count"}),
                                    !.hastop = ht, !.top = tp, !.join = j, !.jkeys = ks]
                 [] kind = "agg" ->
                      [BaseQ EXCEPT !.items = RandomElement(AggLists), !.where = w, !.hasgroup = (g # <<>>), !.group = g, !.hastop = ht, !.top = tp, !.join = j, !.jkeys = ks]
                 [] kind = "except" ->
                      [BaseQ EXCEPT !.hasexc = TRUE, !.exc = RandomElement({<<1>>, <<2>>, <<2, 1>>, <<1, 1>>, <<3>>}), !.where = PickW("none"), !.hastop = ht, !.top = tp]
                 [] OTHER ->
                      [BaseQ EXCEPT !.kind = "update", !.assign = RandomElement(AssignsSim), !.where = w, !.join = IF j = "strict" THEN "inner" ELSE j, !.jkeys = ks]
    /\ hasHdr' = RandomElement(HdrModes) /\ breakAt' = RandomElement(BreakPoints)
    /\ pc' = "parse"
    /\ UNCHANGED <<A, B>> /\ UNCHANGED runvars
SimNext2 == GrowA \/ DoneA \/ GrowB \/ ChooseQSim2 \/ Parse \/ BuildB \/ SetHeader \/ RunInit \/ Pull \/ StartRecord \/ Match \/ Feed \/ Finish

SimNext == GrowA \/ DoneA \/ GrowB \/ ChooseQSim \/ Parse \/ BuildB \/ SetHeader \/ RunInit \/ Pull \/ StartRecord \/ Match \/ Feed \/ Finish
=============================================================================
