--------------------------- MODULE FrontendTrace ---------------------------
(***************************************************************************)
(* Code -> specification for the front-ends.  IOEnv.KIND selects what the  *)
(* ndjson lines are:                                                       *)
(*  "fd"  : {tid, events: [["open", role, mode] | ["close", role]], leaked}*)
(*          recorded by replacing rbql_csv.open in the harness process     *)
(*  "cli" : {tid, exit, stdout_is_table, stderr_kinds: [..], outcome}      *)
(*          from `python -m rbql` / rbql-js cli runs                       *)
(*  "sql" : {tid, ident: [class..], statements: [shape..]}                 *)
(*          from a logging sqlite3 connection                              *)
(*  "lookup": {tid, direct, maindir, index, abs, hasdir, found}            *)
(*          which candidate file a join query actually read                *)
(* The verdicts are the monitors of Frontends.tla.                         *)
(***************************************************************************)
EXTENDS Frontends, Json, IOUtils

Traces == ndJsonDeserialize(IOEnv.TRACE_FILE)
Kind == IOEnv.KIND

VARIABLE i
TInit == /\ i = 1 /\ pc = "trace" /\ failAt = "none" /\ join = FALSE /\ fds = {} /\ evs = <<>> /\ outcome = "" /\ closeIn = FALSE /\ closeOut = FALSE
TNext == i <= Len(Traces) /\ i' = i + 1 /\ UNCHANGED vars

ToSet(s) == {s[k] : k \in 1..Len(s)}

Verdict(t) == CASE Kind = "fd"  -> FdOk(t.events) /\ t.leaked = 0
                [] Kind = "cli" -> CliOk([exit |-> t.exit, stdout_is_table |-> t.stdout_is_table, stderr_kinds |-> ToSet(t.stderr_kinds), outcome |-> t.outcome])
                [] Kind = "sql" -> SqlOk(SafeIdent(t.ident), t.statements)
                [] Kind = "lookup" -> t.found = ResolveTable([direct |-> t.direct, maindir |-> t.maindir, index |-> t.index], t.abs, t.hasdir)
                [] OTHER -> FALSE

Judge == IF i <= Len(Traces)
         THEN Verdict(Traces[i]) \/ PrintT(ToJson([reject |-> Traces[i].tid]))
         ELSE PrintT(ToJson([consumed |-> Len(Traces)]))
=============================================================================
