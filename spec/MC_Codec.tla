------------------------------ MODULE MC_Codec ------------------------------
(* Table spaces for CsvCodec (C10): cfg files substitute Recs <- R_xxx. *)
EXTENDS CsvCodec

Chars == {Q, DlmA, SP, LF, CR, 97} \cup (IF DlmB = 0 THEN {} ELSE {DlmB})
CharsNoBreak == Chars \ {LF, CR}
FieldsOver(cs, n) == UNION {[1..k -> cs] : k \in 0..n}

\* one record of up to two fields, fields up to two characters (all classes incl. line breaks)
R_f2x2   == UNION {[1..k -> FieldsOver(Chars, 2)] : k \in 0..2}
\* up to two fields of up to three characters without line breaks (quote / delimiter / space interplay)
R_f3x2nb == UNION {[1..k -> FieldsOver(CharsNoBreak, 3)] : k \in 1..2}
\* records for multi-record tables: fields of at most one character
R_f1x2   == UNION {[1..k -> FieldsOver(Chars, 1)] : k \in 0..2}
\* None cells and plain cells (warning clause)
R_none   == UNION {[1..k -> {NoneCell, <<97>>, <<>>, <<DlmA>>}] : k \in 1..2}
\* list-valued cells, with and without a None element (the None must still be reported)
R_list   == UNION {[1..k -> {ListOf(<< <<97>>, NoneCell >>), ListOf(<< <<97>>, <<98>> >>), ListOf(<<>>), ListOf(<< NoneCell >>), <<97>>, NoneCell}] : k \in 1..2}
\* BOM character leading the first field
R_bom    == {<< <<BOMC, 97>> >>, << <<BOMC>> >>, << <<97>>, <<BOMC>> >>, << <<97, BOMC>> >>}
=============================================================================
