----------------------------- MODULE CsvScanner -----------------------------
(***************************************************************************)
(* The quoting dialect of CsvDialect.tla as a character-at-a-time scanner  *)
(* automaton: one step per consumed character, explicit rewind when a      *)
(* tentatively quoted field turns out not to be one.  TLC enumerates every *)
(* line within the bound (setup actions Grow/Start), checks that the       *)
(* automaton ends with exactly the fields / warning flag / raw spans of    *)
(* the declarative dialect, and prints one replay case per line.           *)
(***************************************************************************)
EXTENDS CsvDialect

CONSTANTS Alphabet,   \* set of code points lines are built from
          DlmA, DlmB, \* the delimiter: <<DlmA>> or, when DlmB # 0, <<DlmA, DlmB>> (cfg files cannot hold tuples)
          MaxLen,     \* bound on the line length
          EmitCases   \* TRUE: print one replay case per line
          , MUT       \* "" or the name of a specification mutant (non-vacuity, R5)

Dlm == IF DlmB = 0 THEN <<DlmA>> ELSE <<DlmA, DlmB>>

VARIABLES line, st, pos, fstart, cur, fields, raws, warn, qa

vars == <<line, st, pos, fstart, cur, fields, raws, warn, qa>>

Init == /\ line = <<>> /\ st = "setup" /\ pos = 1 /\ fstart = 1 /\ cur = <<>>
        /\ fields = <<>> /\ raws = <<>> /\ warn = FALSE /\ qa = 0

\* setup: choose the line one character at a time (every line is reached by exactly one path)
Grow == /\ st = "setup" /\ Len(line) < MaxLen
        /\ \E c \in Alphabet : line' = Append(line, c)
        /\ UNCHANGED <<st, pos, fstart, cur, fields, raws, warn, qa>>

Start == /\ st = "setup"
         /\ st' = "fieldstart"
         /\ UNCHANGED <<line, pos, fstart, cur, fields, raws, warn, qa>>

AtEnd == pos = Len(line) + 1
AtDlm == StartsWith(line, pos, Dlm)
DlmLen == IF MUT = "delim_len_1" THEN 1 ELSE Len(Dlm)

EmitField(f, r, w, nextpos, more) ==
    /\ fields' = Append(fields, f)
    /\ raws' = Append(raws, r)
    /\ warn' = (warn \/ w)
    /\ cur' = <<>>
    /\ pos' = nextpos
    /\ fstart' = nextpos
    /\ st' = IF more THEN "fieldstart" ELSE "done"
    /\ qa' = 0

\* at the first character of a field
FieldStart ==
    /\ st = "fieldstart"
    /\ IF AtEnd THEN EmitField(<<>>, <<>>, FALSE, pos, FALSE)                       \* empty last field
       ELSE IF SpacesAllowed(Dlm) /\ line[pos] = SP /\ ~AtDlm
            THEN /\ st' = "leadsp" /\ pos' = pos + 1 /\ UNCHANGED <<fstart, cur, fields, raws, warn, qa>>
       ELSE IF line[pos] = Q
            THEN /\ st' = "inq" /\ qa' = pos /\ pos' = pos + 1 /\ UNCHANGED <<fstart, cur, fields, raws, warn>>
       ELSE /\ st' = "unq" /\ UNCHANGED <<pos, fstart, cur, fields, raws, warn, qa>>
    /\ line' = line

\* leading spaces before a possible opening quote
LeadSp ==
    /\ st = "leadsp"
    /\ IF ~AtEnd /\ line[pos] = SP THEN /\ pos' = pos + 1 /\ UNCHANGED <<st, qa>>
       ELSE IF ~AtEnd /\ line[pos] = Q THEN /\ st' = "inq" /\ qa' = pos /\ pos' = pos + 1
       ELSE /\ st' = "unq" /\ pos' = fstart /\ UNCHANGED qa                           \* rewind: not a quoted field
    /\ UNCHANGED <<line, fstart, cur, fields, raws, warn>>

\* inside the quotes
InQ ==
    /\ st = "inq"
    /\ IF AtEnd THEN /\ st' = "unq" /\ pos' = fstart /\ cur' = <<>>                   \* no closing quote: rewind
       ELSE IF line[pos] = Q THEN /\ st' = "qq" /\ pos' = pos + 1 /\ UNCHANGED cur
       ELSE /\ cur' = Append(cur, line[pos]) /\ pos' = pos + 1 /\ UNCHANGED st
    /\ UNCHANGED <<line, fstart, fields, raws, warn, qa>>

\* just after a quote inside a quoted field: doubled quote, or the closing quote
QQ ==
    /\ st = "qq"
    /\ IF ~AtEnd /\ line[pos] = Q
       THEN /\ st' = "inq" /\ cur' = Append(cur, Q) /\ pos' = pos + 1
       ELSE /\ st' = "trail" /\ UNCHANGED <<cur, pos>>
    /\ UNCHANGED <<line, fstart, fields, raws, warn, qa>>

\* after the closing quote: optional spaces, then delimiter or end of line, otherwise rewind
Trail ==
    /\ st = "trail"
    /\ IF AtEnd THEN EmitField(cur, SubSeq(line, fstart, pos - 1), FALSE, pos, FALSE)
       ELSE IF AtDlm THEN EmitField(cur, SubSeq(line, fstart, pos - 1), FALSE, pos + DlmLen, TRUE)
       ELSE IF SpacesAllowed(Dlm) /\ line[pos] = SP
            THEN /\ pos' = pos + 1 /\ UNCHANGED <<st, fstart, cur, fields, raws, warn, qa>>
       ELSE /\ st' = "unq" /\ pos' = fstart /\ cur' = <<>> /\ UNCHANGED <<fstart, fields, raws, warn, qa>>
    /\ line' = line

\* unquoted field: runs to the next delimiter
Unq ==
    /\ st = "unq"
    /\ IF AtEnd THEN EmitField(cur, cur, Contains(cur, Q), pos, FALSE)
       ELSE IF AtDlm THEN EmitField(cur, cur, Contains(cur, Q), pos + DlmLen, TRUE)
       ELSE /\ cur' = Append(cur, line[pos]) /\ pos' = pos + 1 /\ UNCHANGED <<st, fstart, fields, raws, warn, qa>>
    /\ line' = line

Next == Grow \/ Start \/ FieldStart \/ LeadSp \/ InQ \/ QQ \/ Trail \/ Unq

Spec == Init /\ [][Next]_vars

--------------------------------------------------------------------------
(* Theorems TLC checks on the specification itself *)

Done == st = "done"

\* the automaton computes the declarative dialect
ScannerIsDialect == Done => /\ fields = QFields(line, Dlm)
                            /\ warn = QWarn(line, Dlm)
                            /\ raws = QRaw(line, Dlm)

\* the quote-preserving split re-joins to the original line (C11), for every policy that has a delimiter
PreserveRejoins == Done => /\ JoinBy(QRaw(line, Dlm), Dlm) = line
                           /\ JoinBy(SplitPlain(line, 1, Dlm), Dlm) = line

\* reading what the writer's quoting produced gives the field back, without warning (C10 core; fields without line breaks)
QuoteRoundTrip == Done => LET w == QuoteField(line, Dlm) IN
                          /\ QFields(w, Dlm) = <<line>>
                          /\ ~QWarn(w, Dlm)

\* progress: position never exceeds the end, scanning terminates (every step consumes a character, rewinds happen at most once per field)
TypeOK == /\ pos \in 1..(Len(line) + 1) /\ fstart \in 1..(Len(line) + 1)
          /\ st \in {"setup", "fieldstart", "leadsp", "inq", "qq", "trail", "unq", "done"}

--------------------------------------------------------------------------
(* One replay case per enumerated line (printed in the terminal state) *)

CaseOf(s) == [line |-> s, dlm |-> Dlm,
              q |-> [fields |-> QFields(s, Dlm), warn |-> QWarn(s, Dlm), raw |-> QRaw(s, Dlm)],
              simple |-> SplitPlain(s, 1, Dlm),
              ws |-> SplitWs(s, 1),
              wsraw |-> SplitWsRaw(s, 1),
              quote |-> QuoteField(s, Dlm),
              rfcquote |-> RfcQuoteField(s, Dlm)]

Emit == (Done /\ EmitCases) => PrintT(ToJson(CaseOf(line)))

=============================================================================
