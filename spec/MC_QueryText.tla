---------------------------- MODULE MC_QueryText ----------------------------
(* Heads, clauses and literal contents for the QueryText configs (C08). *)
EXTENDS QueryText

\* literal contents over an alphabet holding RBQL keywords and metacharacters (as words)
Lit(qc, ws) == <<"lit", qc, ws>>
L_kw   == Lit("sq", <<"select", "WHERE", "order", "by", "limit", "5">>)
L_meta == Lit("dq", <<"*", "=", "#", ",", ";", "a1", "b1", "NR">>)
L_join == Lit("sq", <<"left", "join", "b", "on", "a1", "==", "b1", "desc">>)
L_quot == Lit("dq", <<"it's", "top", "distinct", "count", "from", "a">>)
L_hash == Lit("sq", <<"#", "not", "a", "comment", "with", "(header)">>)

H_sel1 == [head |-> "SELECT", hspan |-> <<W("a1,"), W("a2")>>, top |-> 0, distinct |-> ""]
H_sel2 == [head |-> "SELECT", hspan |-> <<W("a1,"), L_kw>>, top |-> 3, distinct |-> "uniq"]
H_sel3 == [head |-> "SELECT", hspan |-> <<L_meta, W("+"), W("a1")>>, top |-> 1, distinct |-> "count"]
H_sel4 == [head |-> "SELECT", hspan |-> <<W("*")>>, top |-> 0, distinct |-> ""]
H_upd1 == [head |-> "UPDATE", hspan |-> <<W("a1"), W("="), L_join, W(","), W("a2"), W("="), W("NR")>>, top |-> 0, distinct |-> ""]
H_upd2 == [head |-> "UPDATE", hspan |-> <<W("a2"), W("="), L_quot>>, top |-> 0, distinct |-> ""]

C_where1 == [st |-> "WHERE", span |-> <<W("a1"), W("=="), L_kw>>]
C_where2 == [st |-> "WHERE", span |-> <<W("a2"), W("!="), L_hash, W("and"), W("NR"), W(">"), W("1")>>]
C_order  == [st |-> "ORDER BY", span |-> <<W("a2,"), W("a1")>>]
C_order2 == [st |-> "ORDER BY", span |-> <<W("a1"), W("+"), L_join>>]
C_group  == [st |-> "GROUP BY", span |-> <<W("a1")>>]
C_except == [st |-> "EXCEPT", span |-> <<W("a2")>>]
C_join   == [st |-> "JOIN", span |-> <<W("B"), W("on"), W("a1"), W("=="), W("b1")>>]
C_ijoin  == [st |-> "INNER JOIN", span |-> <<W("B"), W("on"), W("a1"), W("=="), W("b1")>>]
C_ljoin  == [st |-> "LEFT JOIN", span |-> <<W("B"), W("on"), W("a2"), W("=="), W("b1")>>]
C_lojoin == [st |-> "LEFT OUTER JOIN", span |-> <<W("B"), W("on"), W("a2"), W("=="), W("b1")>>]
C_sljoin == [st |-> "STRICT LEFT JOIN", span |-> <<W("B"), W("on"), W("a1"), W("=="), W("b1")>>]

HeadsAll   == {H_sel1, H_sel2, H_sel3, H_sel4, H_upd1, H_upd2}
ClausesAll == {C_where1, C_where2, C_order, C_order2, C_group, C_except, C_join, C_ijoin, C_ljoin, C_lojoin, C_sljoin}
HeadsQ     == {H_sel2, H_sel3, H_upd1}
ClausesQ   == {C_where1, C_order2, C_group, C_ljoin, C_sljoin}
=============================================================================
