-------------------------------- MODULE Like --------------------------------
(***************************************************************************)
(* SQL LIKE (C17).  Text and pattern are Seq(Int) of code points; in the   *)
(* pattern 37 (%) stands for any possibly empty sequence, 95 (_) for       *)
(* exactly one character, every other character for itself.               *)
(*                                                                         *)
(* Declarative: LikeRef(text, pat), the textbook recursive definition.     *)
(* Operational: a position-set automaton (what the anchored regular        *)
(* expression ^..$ built by like_to_regex computes) stepping over the text *)
(* one character per action.  TLC checks Accept <=> LikeRef for every      *)
(* pattern / text pair within the bound and prints one replay case per     *)
(* pair.  Mutants: "pct_needs_one", "underscore_optional".                 *)
(***************************************************************************)
EXTENDS Naturals, Sequences, FiniteSets, TLC, Json

PCT == 37
UND == 95

RECURSIVE LikeRef(_, _)
LikeRef(t, p) == IF p = <<>> THEN t = <<>>
                 ELSE IF p[1] = PCT THEN LikeRef(t, Tail(p)) \/ (t # <<>> /\ LikeRef(Tail(t), p))
                 ELSE t # <<>> /\ (p[1] = UND \/ p[1] = t[1]) /\ LikeRef(Tail(t), Tail(p))

CONSTANTS Alphabet, MaxLen, EmitCases, MUT

VARIABLES pat, text, pc, k, S
vars == <<pat, text, pc, k, S>>

\* state i = the first i pattern characters are matched; a % can match the empty sequence
RECURSIVE Closure(_, _)
Closure(set, p) == LET more == set \cup {i + 1 : i \in {j \in set : j < Len(p) /\ ((p[j + 1] = PCT /\ MUT # "pct_needs_one") \/ (p[j + 1] = UND /\ MUT = "underscore_optional"))}} IN
                   IF more = set THEN set ELSE Closure(more, p)

StepSet(set, c, p) == Closure({i \in set : i >= 1 /\ p[i] = PCT}                                   \* the % just matched absorbs c
                              \cup {i + 1 : i \in {j \in set : j < Len(p) /\ (p[j + 1] = PCT \/ p[j + 1] = UND \/ p[j + 1] = c)}}, p)

Init == pat = <<>> /\ text = <<>> /\ pc = "pattern" /\ k = 0 /\ S = {}

GrowP == /\ pc = "pattern" /\ Len(pat) < MaxLen /\ \E c \in Alphabet : pat' = Append(pat, c)
         /\ UNCHANGED <<text, pc, k, S>>
DoneP == /\ pc = "pattern" /\ pc' = "text" /\ UNCHANGED <<pat, text, k, S>>
GrowT == /\ pc = "text" /\ Len(text) < MaxLen /\ \E c \in Alphabet : text' = Append(text, c)
         /\ UNCHANGED <<pat, pc, k, S>>
Start == /\ pc = "text" /\ pc' = "run" /\ S' = Closure({0}, pat) /\ UNCHANGED <<pat, text, k>>
Step  == /\ pc = "run" /\ k < Len(text)
         /\ k' = k + 1 /\ S' = StepSet(S, text[k + 1], pat)
         /\ UNCHANGED <<pat, text, pc>>
Stop  == /\ pc = "run" /\ k = Len(text) /\ pc' = "done" /\ UNCHANGED <<pat, text, k, S>>

Next == GrowP \/ DoneP \/ GrowT \/ Start \/ Step \/ Stop
Spec == Init /\ [][Next]_vars

Accept == Len(pat) \in S
AutomatonIsLike == pc = "done" => (Accept <=> LikeRef(text, pat))
\* every intermediate state set describes exactly the prefixes matched so far
PrefixInvariant == pc = "run" => \A i \in 0..Len(pat) : (i \in S <=> LikeRef(SubSeq(text, 1, k), SubSeq(pat, 1, i)))

Emit == (pc = "done" /\ EmitCases) => PrintT(ToJson([pat |-> pat, text |-> text, like |-> LikeRef(text, pat)]))
=============================================================================
