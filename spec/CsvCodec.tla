------------------------------ MODULE CsvCodec ------------------------------
(***************************************************************************)
(* Writer o reader round trip and lossy-output warnings (C10, C14, C18).   *)
(*                                                                         *)
(* Declarative writer: WriteTable(T, dlm, policy, linesep) -- what          *)
(* rbql_csv.CSVWriter must put on the stream: None -> '' (+ warning),      *)
(* quoting per policy (CsvDialect!QuoteField / RfcQuoteField), join by the *)
(* delimiter, line separator after every record; the "output field         *)
(* contains the separator" warning of the simple / whitespace policies.    *)
(*                                                                         *)
(* Operational: the writer as a machine, one step per record handed to     *)
(* write(): normalise, quote, join, emit line + separator.                 *)
(*                                                                         *)
(* Theorems (TLC, every table within the bound):                           *)
(*  RoundTrip      Representable(T) => reading the written text with the   *)
(*                 same dialect gives T back (line breaks inside           *)
(*                 quoted_rfc fields normalised to LF) with no warning,    *)
(*                 whatever the line separator.  Representable is the      *)
(*                 syntactic characterisation C10 gives.                   *)
(*  LossIsLoud     a delimiter inside a simple/whitespace field, or a None *)
(*                 cell, always sets the corresponding warning.            *)
(*  MachineIsSpec  the step-by-step writer emits exactly WriteTable.       *)
(***************************************************************************)
EXTENDS CsvText, TLC, Json

CONSTANTS DlmA,        \* first delimiter character
          EmitCases,
          Recs,        \* the records tables are built from
          MaxRecs,
          WPolicies,   \* subset of {"simple", "quoted", "quoted_rfc", "whitespace", "monocolumn"}
          LineSeps,    \* subset of {"LF", "CRLF", "CR"}
          DlmB         \* second delimiter character, 0 for a single-character delimiter

WDlm == IF DlmB = 0 THEN <<DlmA>> ELSE <<DlmA, DlmB>>
NoneCell == <<1114112>>                 \* a None cell (one code beyond Unicode; text cells are Seq(Nat))
IsNone(c) == c = NoneCell
\* a list-valued cell (e.g. an ARRAY_AGG result): <<ListTag>> \o e1 \o <<ElemSep>> \o e2 ...; elements are text or NoneCell
ListTag == 1114113
ElemSep == 1114114
IsList(c) == c # <<>> /\ c[1] = ListTag
Elems(c) == IF Len(c) = 1 THEN <<>> ELSE SplitPlain(Tail(c), 1, <<ElemSep>>)
ListOf(es) == <<ListTag>> \o JoinBy(es, <<ElemSep>>)
\* list elements are joined with '|' (with ';' when '|' is the delimiter)
SubDelim(d) == IF d = <<124>> THEN <<59>> ELSE <<124>>
SepOf(ls) == CASE ls = "LF" -> <<LF>> [] ls = "CRLF" -> <<CR, LF>> [] OTHER -> <<CR>>

Norm(c, d) == IF IsNone(c) THEN <<>>
              ELSE IF IsList(c) THEN LET es == Elems(c) IN JoinBy([k \in 1..Len(es) |-> IF IsNone(es[k]) THEN <<>> ELSE es[k]], SubDelim(d))
              ELSE c
NormRec(rec, d) == [k \in 1..Len(rec) |-> Norm(rec[k], d)]
\* a None anywhere - as a cell or inside a list cell - is written as an empty string and must be reported
HasNone(rec) == \E k \in 1..Len(rec) : IsNone(rec[k]) \/ (IsList(rec[k]) /\ \E m \in 1..Len(Elems(rec[k])) : IsNone(Elems(rec[k])[m]))

CountOcc(s, d) == Len(SplitPlain(s, 1, d)) - 1          \* non-overlapping occurrences (str.count)

\* the line written for one record (Err for monocolumn with several fields)
LineOf(rec, d, policy) ==
    LET r == NormRec(rec, d) IN
    CASE policy = "quoted"     -> JoinBy([k \in 1..Len(r) |-> QuoteField(r[k], d)], d)
      [] policy = "quoted_rfc" -> JoinBy([k \in 1..Len(r) |-> RfcQuoteField(r[k], d)], d)
      [] policy = "monocolumn" -> IF Len(r) >= 1 THEN r[1] ELSE <<>>
      [] OTHER                 -> JoinBy(r, d)
MonoError(rec, policy) == policy = "monocolumn" /\ Len(rec) > 1

\* "Some output fields contain separator": the joined line holds more separators than the record has gaps
DelimWarn(rec, d, policy) == policy \in {"simple", "whitespace"} /\ CountOcc(JoinBy(NormRec(rec, d), d), d) + 1 # Len(rec)

RECURSIVE WriteRecs(_, _, _, _)
WriteRecs(T, d, policy, sep) == IF T = <<>> THEN <<>> ELSE LineOf(T[1], d, policy) \o sep \o WriteRecs(Tail(T), d, policy, sep)
WriteTable(T, d, policy, ls) == [text  |-> WriteRecs(T, d, policy, SepOf(ls)),
                                 wnone |-> \E k \in 1..Len(T) : HasNone(T[k]),
                                 wdelim |-> \E k \in 1..Len(T) : DelimWarn(T[k], d, policy)]

--------------------------------------------------------------------------
(* which tables the dialect can represent (the characterisation of C10) *)

HasBreak(f) == Contains(f, LF) \/ Contains(f, CR)
\* does d occur in s, or would it straddle the boundary s ++ d (partial overlap of a multi-character delimiter)?
CleanOf(f, d) == ~HasSub(f \o SubSeq(d, 1, Len(d) - 1), d) /\ ~HasSub(SubSeq(d, 2, Len(d)) \o f, d)

FieldOk(f, d, policy) ==
    CASE policy = "simple"     -> ~HasBreak(f) /\ CleanOf(f, d)
      [] policy = "whitespace" -> ~HasBreak(f) /\ f # <<>> /\ ~Contains(f, SP)
      [] policy = "monocolumn" -> ~HasBreak(f)
      [] policy = "quoted"     -> ~HasBreak(f) /\ (Contains(f, Q) \/ HasSub(f, d) \/ CleanOf(f, d))
      [] OTHER                 -> (Contains(f, Q) \/ HasSub(f, d) \/ HasBreak(f) \/ CleanOf(f, d))

RecOk(rec, d, policy) ==
    /\ ~HasNone(rec) /\ (\A k \in 1..Len(rec) : ~IsList(rec[k]))
    /\ \A k \in 1..Len(rec) : FieldOk(rec[k], d, policy)
    /\ CASE policy = "monocolumn" -> Len(rec) = 1
         [] policy = "whitespace" -> Len(rec) >= 1
         [] OTHER -> Len(rec) >= 1

\* (a record that is one empty field is written as an empty line and is read back as [''], so it is representable)
RepresentableE(T, d, policy, enc) ==
    /\ \A k \in 1..Len(T) : RecOk(T[k], d, policy)
    \* no leading BOM: the first written line must not start with what the reader strips for this encoding
    /\ (T # <<>> => StripBomLine(LineOf(T[1], d, policy), enc) = LineOf(T[1], d, policy))
Representable(T, d, policy) == RepresentableE(T, d, policy, "utf-8")

\* line breaks inside quoted_rfc fields come back as LF
RECURSIVE NormBreaks(_)
NormBreaks(f) == IF f = <<>> THEN <<>>
                 ELSE IF f[1] = CR THEN <<LF>> \o NormBreaks(IF Len(f) >= 2 /\ f[2] = LF THEN SubSeq(f, 3, Len(f)) ELSE Tail(f))
                 ELSE <<f[1]>> \o NormBreaks(Tail(f))
Expected(T, policy) == [k \in 1..Len(T) |-> [m \in 1..Len(T[k]) |-> IF policy = "quoted_rfc" THEN NormBreaks(T[k][m]) ELSE T[k][m]]]

ReadBackE(text, d, policy, enc) == RefRead(text, d, policy, 0, enc)     \* no comment prefix
ReadBack(text, d, policy) == ReadBackE(text, d, policy, "utf-8")       \* utf-8: BOM stripping on

--------------------------------------------------------------------------
(* the writer as a machine *)

VARIABLES T, wpolicy, lsep, wpc, wi, otext, fnone, fdelim, werr
wvars == <<T, wpolicy, lsep, wpc, wi, otext, fnone, fdelim, werr>>

WInit == /\ T = <<>> /\ wpolicy = "simple" /\ lsep = "LF" /\ wpc = "setup" /\ wi = 0
         /\ otext = <<>> /\ fnone = FALSE /\ fdelim = FALSE /\ werr = FALSE

WGrow == /\ wpc = "setup" /\ Len(T) < MaxRecs
         /\ \E r \in Recs : T' = Append(T, r)
         /\ UNCHANGED <<wpolicy, lsep, wpc, wi, otext, fnone, fdelim, werr>>
WStart == /\ wpc = "setup"
          /\ \E p \in WPolicies, l \in LineSeps : wpolicy' = p /\ lsep' = l
          /\ wpc' = "write"
          /\ UNCHANGED <<T, wi, otext, fnone, fdelim, werr>>

\* one write(fields) call: normalise (None -> '', flag), preprocess (quote), join, check, stream.write(line), stream.write(separator)
WWrite == /\ wpc = "write"
          /\ IF wi = Len(T) THEN /\ wpc' = "done" /\ UNCHANGED <<wi, otext, fnone, fdelim, werr>>
             ELSE LET rec == T[wi + 1] IN
                  IF MonoError(rec, wpolicy) THEN /\ werr' = TRUE /\ wpc' = "done" /\ UNCHANGED <<wi, otext, fnone, fdelim>>
                  ELSE /\ wi' = wi + 1
                       /\ fnone' = (fnone \/ HasNone(rec))
                       /\ fdelim' = (fdelim \/ DelimWarn(rec, WDlm, wpolicy))
                       /\ otext' = otext \o LineOf(rec, WDlm, wpolicy) \o SepOf(lsep)
                       /\ UNCHANGED <<wpc, werr>>
          /\ UNCHANGED <<T, wpolicy, lsep>>

WNext == WGrow \/ WStart \/ WWrite
WSpec == WInit /\ [][WNext]_wvars

WDone == wpc = "done"
AnyMonoError == \E k \in 1..Len(T) : MonoError(T[k], wpolicy)

MachineIsSpec == (WDone /\ ~werr) => LET w == WriteTable(T, WDlm, wpolicy, lsep) IN otext = w.text /\ fnone = w.wnone /\ fdelim = w.wdelim
MonoErrIff == WDone => (werr <=> AnyMonoError)

RoundTrip == (WDone /\ ~werr /\ Representable(T, WDlm, wpolicy)) =>
             LET r == ReadBack(otext, WDlm, wpolicy) IN
             /\ r.recs = Expected(T, wpolicy)
             /\ ~r.err /\ r.firstdef = 0 /\ ~r.bom
             /\ ~fnone /\ ~fdelim

\* informational: is the characterisation tight?  (a table outside it that still round-trips silently)
Tight == (WDone /\ ~werr /\ ~Representable(T, WDlm, wpolicy)) =>
         LET r == ReadBack(otext, WDlm, wpolicy) IN ~(r.recs = Expected(T, wpolicy) /\ ~r.err /\ r.firstdef = 0 /\ ~r.bom /\ ~fnone /\ ~fdelim)

\* lossy output is never silent
LossIsLoud == (WDone /\ ~werr) =>
              /\ ((\E k \in 1..Len(T) : HasNone(T[k])) => fnone)
              /\ (wpolicy \in {"simple", "whitespace"} /\ (\E k \in 1..Len(T) : \E m \in 1..Len(T[k]) : HasSub(Norm(T[k][m], WDlm), WDlm)) => fdelim)

\* for single-character delimiters the separator warning is exact (C14 "iff"); records with no field at all are outside (I8)
DelimWarnExact == (WDone /\ ~werr /\ DlmB = 0 /\ wpolicy \in {"simple", "whitespace"} /\ (\A k \in 1..Len(T) : Len(T[k]) >= 1)) =>
                  (fdelim <=> (\E k \in 1..Len(T) : \E m \in 1..Len(T[k]) : HasSub(Norm(T[k][m], WDlm), WDlm)))

WCase == LET w == WriteTable(T, WDlm, wpolicy, lsep)
             rep == Representable(T, WDlm, wpolicy) IN
         [T |-> T, dlm |-> WDlm, policy |-> wpolicy, linesep |-> lsep, monoerr |-> AnyMonoError,
          text |-> IF AnyMonoError THEN <<>> ELSE w.text, wnone |-> w.wnone, wdelim |-> w.wdelim,
          representable |-> rep,
          readback |-> IF AnyMonoError THEN ReadBack(<<>>, WDlm, wpolicy) ELSE ReadBack(w.text, WDlm, wpolicy),
          expected |-> Expected(T, wpolicy)]
WEmit == (WDone /\ EmitCases) => PrintT(ToJson(WCase))
=============================================================================
