------------------------------ MODULE LikeTrace ------------------------------
(* Code -> specification for like(): each ndjson line {tid, text, pat, result} is one evaluation by the real code. *)
EXTENDS Like, IOUtils

Traces == ndJsonDeserialize(IOEnv.TRACE_FILE)
VARIABLE i
TInit == i = 1 /\ Init
TNext == i <= Len(Traces) /\ i' = i + 1 /\ UNCHANGED vars
Judge == IF i <= Len(Traces)
         THEN (Traces[i].result = LikeRef(Traces[i].text, Traces[i].pat)) \/ PrintT(ToJson([reject |-> Traces[i].tid, like |-> LikeRef(Traces[i].text, Traces[i].pat)]))
         ELSE PrintT(ToJson([consumed |-> Len(Traces)]))
=============================================================================
