-------------------------- MODULE WriterChainInd --------------------------
(* Apalache entry point: IndInit is IndInv as an initial condition (every variable constrained), so that
   `--init=IndInit --inv=IndInv --length=1` checks inductiveness and `--init=WInit --inv=IndInv --length=0` initiation. *)
EXTENDS WriterChain

IndInit == /\ apc \in {"pre", "loop", "flush", "done", "failed"}
           /\ astop \in BOOLEAN
           /\ mode \in {"stream", "buffered"}
           /\ \E h \in {0, 1}, f \in {0, 1}, r \in BOOLEAN, b \in BOOLEAN, w \in Nat :
                 m = [hdr |-> h, writes |-> w, refused |-> r, fin |-> f, bad |-> b]
           /\ IndInv
=============================================================================
