-------------------------- MODULE WriterChainMut --------------------------
(* Non-vacuity of the inductive argument: with one extra action (a row handed to the leaf without looking at the stop flag, what the
   engine would do if a loop lacked its `if stop_flag: break`) IndInv is no longer inductive and Apalache must say so. *)
EXTENDS WriterChainInd

BadWrite == apc = "loop" /\ mode = "stream" /\ m' = MStep(m, "write", TRUE) /\ UNCHANGED <<apc, astop, mode>>
MutNext == WNext \/ BadWrite
=============================================================================
