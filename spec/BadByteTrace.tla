---------------------------- MODULE BadByteTrace ----------------------------
(***************************************************************************)
(* Code -> specification, byte level (C15 "bad bytes", C12 byte level):    *)
(* each ndjson line is what the real reader made of a byte string under    *)
(* some delivery schedule:                                                 *)
(*   {tid, bytes, policy, cmt, ioerr: BOOLEAN, other: BOOLEAN, result}     *)
(* Verdict: valid UTF-8 is never rejected and reads as RefRead of the      *)
(* decoded text; invalid UTF-8 always ends in an IO-handling error (never  *)
(* a raw decoding exception, never garbage records).                       *)
(***************************************************************************)
EXTENDS CsvReader, Utf8Ops, IOUtils

Traces == ndJsonDeserialize(IOEnv.TRACE_FILE)

VARIABLE i
TInit == i = 1 /\ Init
TNext == i <= Len(Traces) /\ i' = i + 1 /\ UNCHANGED vars

Expected(t) == RefRead(Decode(t.bytes).chars, Dlm, t.policy, t.cmt, "utf-8")

Verdict(t) == IF Valid(t.bytes)
              THEN ~t.ioerr /\ ~t.other /\ t.result = Expected(t)
              ELSE t.ioerr /\ ~t.other

Judge == IF i <= Len(Traces)
         THEN Verdict(Traces[i]) \/ PrintT(ToJson([reject |-> Traces[i].tid, valid |-> Valid(Traces[i].bytes),
                                                    expected |-> IF Valid(Traces[i].bytes) THEN Expected(Traces[i]) ELSE Expected([Traces[i] EXCEPT !.bytes = <<>>])]))
         ELSE PrintT(ToJson([consumed |-> Len(Traces)]))
=============================================================================
