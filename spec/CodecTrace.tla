----------------------------- MODULE CodecTrace -----------------------------
(***************************************************************************)
(* Code -> specification for the CSV writer / reader pair (C10): each      *)
(* ndjson line is one table written by the real CSVWriter and read back by *)
(* the real CSVRecordIterator:                                             *)
(*  {tid, T, dlm, policy, linesep, enc, werr, text, wnone, wdelim,         *)
(*   readback, readfail}                                                   *)
(* (cells and text as arrays of code points, None = [1114112]).  TLC       *)
(* judges with the operators of CsvCodec.                                  *)
(***************************************************************************)
EXTENDS CsvCodec, IOUtils

Traces == ndJsonDeserialize(IOEnv.TRACE_FILE)

VARIABLE i
TInit == i = 1 /\ WInit
TNext == i <= Len(Traces) /\ i' = i + 1 /\ UNCHANGED wvars

EncOf(t) == IF t.enc = "None" THEN "none" ELSE t.enc

Reasons(t) ==
    LET mono == \E k \in 1..Len(t.T) : MonoError(t.T[k], t.policy)
        w    == WriteTable(t.T, t.dlm, t.policy, t.linesep)
        rep  == RepresentableE(t.T, t.dlm, t.policy, EncOf(t))
    IN [refusal   |-> (t.werr <=> mono),
        text      |-> (~mono => t.text = w.text),
        warnings  |-> (~mono => (t.wnone = w.wnone /\ t.wdelim = w.wdelim)),
        read      |-> (~mono => (~t.readfail /\ t.readback = ReadBackE(t.text, t.dlm, t.policy, EncOf(t)))),
        roundtrip |-> ((~mono /\ rep) => (t.readback.recs = Expected(t.T, t.policy) /\ ~t.readback.err /\ t.readback.firstdef = 0
                                           /\ ~t.readback.bom /\ ~t.wnone /\ ~t.wdelim))]

Accept(t) == LET r == Reasons(t) IN r.refusal /\ r.text /\ r.warnings /\ r.read /\ r.roundtrip

Judge == IF i <= Len(Traces)
         THEN Accept(Traces[i]) \/ PrintT(ToJson([reject |-> Traces[i].tid, reasons |-> Reasons(Traces[i])]))
         ELSE PrintT(ToJson([consumed |-> Len(Traces)]))
=============================================================================
