----------------------------- MODULE RbqlEngine -----------------------------
(***************************************************************************)
(* The RBQL query engine (rbql_engine.py / rbql.js) -- C01..C07, C14, C15, *)
(* C16, C19.                                                               *)
(*                                                                         *)
(* Declarative side:  Ref -- the relational meaning of a query descriptor  *)
(*   over tables A and B (join expansion, WHERE, projection incl. star     *)
(*   forms / EXCEPT / UNNEST, stable sort, DESC = reverse, DISTINCT,       *)
(*   DISTINCT COUNT, TOP, GROUP BY + aggregates, UPDATE, output header,    *)
(*   error class and first offending record).                              *)
(*                                                                         *)
(* Operational side:  a state machine whose steps are the observable API   *)
(*   events of the implementation (b.get_record, set_header, a.get_record, *)
(*   leaf write -> bool, finish), with the writer chain                    *)
(*   Sorted -> Uniq|UniqCount -> Top -> leaf (Aggregate -> Top -> leaf) as *)
(*   data, stop_flag, the per-match loop, the per-record UNNEST list and   *)
(*   first-record aggregate discovery, and a fault plan (the leaf writer   *)
(*   refuses from its k-th call on).                                       *)
(*                                                                         *)
(* Theorems checked by TLC (invariants below): the machine ends in the     *)
(* state Ref prescribes; streamed output is always a prefix of it; the     *)
(* writer protocol monitor never goes bad; a bounded streaming query       *)
(* pulls no more input than PullBound allows; sources never change and     *)
(* output rows never alias them; header width = record width.              *)
(***************************************************************************)
EXTENDS RbqlValues, Monitors, Json, FiniteSets

CONSTANTS Queries,        \* set of query descriptors (see BaseQ)
          RecsA, RecsB,   \* sets of records the tables are built from by setup steps
          MaxA, MaxB,     \* bounds on the number of records
          HdrModes,       \* subset of BOOLEAN: input (and join) table with / without column names
          BreakPoints,    \* set of Nat: the leaf writer refuses from this call on (0 = never)
          Cyclic,         \* TRUE: the input iterator never ends -- after the last record of A it starts over (C02, unbounded input)
          EmitCases, MUT

\* shape of a query descriptor; MC modules build theirs with [BaseQ EXCEPT ...]
BaseQ == [kind |-> "select", items |-> <<>>, hasexc |-> FALSE, exc |-> <<>>,
          where |-> <<"true">>, order |-> <<>>, desc |-> FALSE, distinct |-> "none",
          hastop |-> FALSE, top |-> 0, join |-> "none", jkeys |-> <<>>,
          hasgroup |-> FALSE, group |-> <<>>, assign |-> <<>>,
          mistake |-> "",      \* a mistake in the query TEXT the renderer realises: "where_assign" (= in WHERE), "two_selects", "bad_limit",
                               \* "unknown_except_field", "unknown_update_field", "update_not_first"  -> parsing error (C14)
          init |-> "",         \* user init code: "" none, "def" defines the function udf used by <<"udf", e>>, "raise" raises
          iofault |-> ""]      \* inconsistent input: "hdr_len" (column-name list longer than the records), "join_hdr_missing" -> IO-handling error

VARIABLES q, A, B, hasHdr, breakAt,        \* the case (setup)
          pc,
          bi, maxlenB,                      \* join map build
          nr, nu, pulled,                   \* main loop
          matches, cands, candkey, uset,    \* per-record match list; candidate rows of the current pair, their sort key; UNNEST list captured
          stop,
          sortbuf, seen, counts, nw,        \* writer chain as data
          aggst, aggcols, aggkeys,          \* aggregation stage, per-column accumulators, keys seen
          fphase, fq,                       \* finish phases
          out, hdr, hdrset, leafcalls,      \* what the leaf writer saw
          mon,                              \* writer-protocol monitor (C15)
          err                               \* <<>> or <<[cls, nr, fld]>>

vars == <<q, A, B, hasHdr, breakAt, pc, bi, maxlenB, nr, nu, pulled, matches, cands, candkey, uset, stop,
          sortbuf, seen, counts, nw, aggst, aggcols, aggkeys, fphase, fq, out, hdr, hdrset, leafcalls, mon, err>>

--------------------------------------------------------------------------
(* static facts about the case *)

NameA(k) == "x" \o ToString(k)
NameB(k) == "y" \o ToString(k)
WidthA == IF A = <<>> THEN 2 ELSE Len(A[1])
\* the i-th record the input iterator delivers (1-based): A itself, or A repeated for ever when Cyclic
RecA(i) == IF Cyclic THEN A[((i - 1) % Len(A)) + 1] ELSE A[i]
PullSat == 3 * (Len(A) + 1) + 4
WidthB == IF B = <<>> THEN 2 ELSE Len(B[1])
HdrA == IF hasHdr THEN [k \in 1..WidthA |-> NameA(k)] ELSE <<>>
HdrB == IF hasHdr /\ q.join # "none" THEN [k \in 1..WidthB |-> NameB(k)] ELSE <<>>

RECURSIVE MaxLen(_)
MaxLen(T) == IF T = <<>> THEN 0 ELSE LET m == MaxLen(Tail(T)) IN IF Len(T[1]) > m THEN Len(T[1]) ELSE m

IsAggItem(it)    == it[1] \in {"agg", "aggplus", "aggattr"} \/ (it[1] = "as" /\ it[2][1] = "agg")
\* an aggregate used inside a host-language expression (MAX(a2) + 1, MAX(a2).strip()): a mistake reported as a parsing error
IsAggMisuse(it)  == it[1] \in {"aggplus", "aggattr"}
IsUnnestItem(it) == it[1] = "unnest" \/ (it[1] = "as" /\ it[2][1] = "unnest")
IsStarItem(it)   == it[1] \in {"star", "astar", "bstar"}
CoreItem(it)     == IF it[1] = "as" THEN it[2] ELSE it
HasAlias(items)  == \E k \in 1..Len(items) : items[k][1] = "as"
HasStar(items)   == \E k \in 1..Len(items) : IsStarItem(items[k])
HasAgg(qq)       == \E k \in 1..Len(qq.items) : IsAggItem(qq.items[k])
Aggregated(qq)   == qq.kind = "select" /\ (HasAgg(qq) \/ qq.hasgroup)
Sorted(qq)       == qq.order # <<>>
\* a bounded query that needs no buffering (C02)
Streaming(qq)    == qq.kind = "select" /\ qq.hastop /\ ~Sorted(qq) /\ ~Aggregated(qq) /\ qq.distinct # "count"

--------------------------------------------------------------------------
(* join expansion (C04) *)

\* key of A record i: <<TRUE, bad field>> or <<FALSE, tuple of values>>
RECURSIVE KeyAFrom(_, _)
KeyAFrom(i, ks) == IF ks = <<>> THEN <<>>
                   ELSE <<(IF ks[1][1] = 0 THEN IntV(i) ELSE RecA(i)[ks[1][1]])>> \o KeyAFrom(i, Tail(ks))
BadKeyFieldA(i) == LET bad == {k \in 1..Len(q.jkeys) : q.jkeys[k][1] > Len(RecA(i))} IN
                   IF bad = {} THEN 0 ELSE q.jkeys[CHOOSE k \in bad : \A m \in bad : k <= m][1]
RECURSIVE KeyBFrom(_, _)
KeyBFrom(j, ks) == IF ks = <<>> THEN <<>>
                   ELSE <<(IF ks[1][2] = 0 THEN IntV(j) ELSE B[j][ks[1][2]])>> \o KeyBFrom(j, Tail(ks))
BadKeyFieldB(j) == LET bad == {k \in 1..Len(q.jkeys) : q.jkeys[k][2] > Len(B[j])} IN
                   IF bad = {} THEN 0 ELSE q.jkeys[CHOOSE k \in bad : \A m \in bad : k <= m][2]

\* first B record lacking a key field (the join map cannot be built), 0 if none
FirstBadB == LET bad == {j \in 1..Len(B) : BadKeyFieldB(j) # 0} IN
             IF bad = {} THEN 0 ELSE CHOOSE j \in bad : \A m \in bad : j <= m

RECURSIVE KeysEq(_, _)
KeysEq(k1, k2) == IF k1 = <<>> THEN TRUE ELSE VEq(k1[1], k2[1]) /\ KeysEq(Tail(k1), Tail(k2))

RECURSIVE PartnersFrom(_, _)
PartnersFrom(i, j) == IF j > Len(B) THEN <<>>
                      ELSE (IF KeysEq(KeyAFrom(i, q.jkeys), KeyBFrom(j, q.jkeys)) THEN <<j>> ELSE <<>>) \o PartnersFrom(i, j + 1)
Partners(i) == PartnersFrom(i, 1)          \* B indices, in B order

\* processing units of A record i: pairs <<i, j>> (j = 0: no partner / null partner), or an error unit
UnitsOf(i) ==
    IF q.join = "none" THEN << [i |-> i, j |-> 0, kind |-> "pair", fld |-> 0] >>
    ELSE IF BadKeyFieldA(i) # 0 THEN << [i |-> i, j |-> 0, kind |-> "keyerr", fld |-> BadKeyFieldA(i)] >>
    ELSE LET ps == Partners(i) IN
         IF q.kind = "update"
         THEN IF Len(ps) > 1 THEN << [i |-> i, j |-> 0, kind |-> "multierr", fld |-> 0] >>
              ELSE IF q.join = "strict" /\ Len(ps) # 1 THEN << [i |-> i, j |-> 0, kind |-> "stricterr", fld |-> 0] >>
              ELSE IF ps = <<>> THEN (IF q.join = "left" THEN << [i |-> i, j |-> 0, kind |-> "pair", fld |-> 0] >>      \* the null partner: every b-field None
                                      ELSE << [i |-> i, j |-> 0, kind |-> "nopartner", fld |-> 0] >>)
              ELSE << [i |-> i, j |-> ps[1], kind |-> "pair", fld |-> 0] >>
         ELSE CASE q.join = "inner"  -> [k \in 1..Len(ps) |-> [i |-> i, j |-> ps[k], kind |-> "pair", fld |-> 0]]
                [] q.join = "left"   -> IF ps = <<>> THEN << [i |-> i, j |-> 0, kind |-> "pair", fld |-> 0] >>
                                        ELSE [k \in 1..Len(ps) |-> [i |-> i, j |-> ps[k], kind |-> "pair", fld |-> 0]]
                [] q.join = "strict" -> IF Len(ps) # 1 THEN << [i |-> i, j |-> 0, kind |-> "stricterr", fld |-> 0] >>
                                        ELSE << [i |-> i, j |-> ps[1], kind |-> "pair", fld |-> 0] >>

EnvOf(i, j, nuv) == [a |-> RecA(i), b |-> IF j = 0 THEN <<>> ELSE B[j], hasb |-> j # 0, nr |-> i, bnr |-> j,
                     bnf |-> IF j = 0 THEN MaxLen(B) ELSE Len(B[j]), nu |-> nuv]

--------------------------------------------------------------------------
(* projection of one pair: SELECT items -> candidate rows (C01) *)

Except(rec, cols) == LET keep == {k \in 1..Len(rec) : ~Member(cols, k)} IN
                     LET F[k \in 0..Len(rec)] == IF k = 0 THEN <<>> ELSE IF k \in keep THEN Append(F[k - 1], rec[k]) ELSE F[k - 1]
                     IN F[Len(rec)]

Consts(n) == [k \in 1..n |-> "CONST"]

\* evaluate the select list left to right.  acc = [cells, upos, ulist, nun, err, cls]
RECURSIVE EvalItems(_, _, _)
EvalItems(items, env, acc) ==
    IF items = <<>> \/ acc.err THEN acc
    ELSE LET it == CoreItem(items[1]) IN
         EvalItems(Tail(items), env,
           CASE it[1] = "star"  -> LET bs == (IF env.hasb \/ q.join = "none" THEN env.b ELSE [k \in 1..env.bnf |-> None]) IN
                                   [acc EXCEPT !.cells = @ \o env.a \o bs, !.kinds = @ \o Consts(Len(env.a) + Len(bs))]
             [] it[1] = "astar" -> [acc EXCEPT !.cells = @ \o env.a, !.kinds = @ \o Consts(Len(env.a))]
             [] it[1] = "bstar" -> LET bs == (IF env.hasb THEN env.b ELSE [k \in 1..env.bnf |-> None]) IN
                                   [acc EXCEPT !.cells = @ \o bs, !.kinds = @ \o Consts(Len(bs))]
             [] it[1] = "unnest" -> LET l == EvalList(it[2], env) IN
                                    IF IsErr(l) THEN [acc EXCEPT !.err = TRUE, !.cls = "runtime"]
                                    ELSE IF acc.nun >= 1 THEN [acc EXCEPT !.err = TRUE, !.cls = "parsing"]     \* Only one UNNEST is allowed
                                    ELSE [acc EXCEPT !.cells = Append(@, None), !.kinds = Append(@, "CONST"), !.upos = Len(acc.cells) + 1, !.ulist = l[2], !.nun = 1]
             [] it[1] \in {"aggplus", "aggattr"} -> LET v == Eval(it[3], env) IN
                                 IF IsErr(v) THEN [acc EXCEPT !.err = TRUE, !.cls = "runtime"]
                                 ELSE [acc EXCEPT !.err = TRUE, !.cls = "parsing"]       \* "Usage of RBQL aggregation functions inside Python expressions is not allowed"
             [] it[1] = "agg" -> LET v == Eval(it[3], env) IN
                                 IF IsErr(v) THEN [acc EXCEPT !.err = TRUE, !.cls = "runtime"]
                                 ELSE [acc EXCEPT !.cells = Append(@, v), !.kinds = Append(@, it[2])]           \* an aggregate column: kind = the function
             [] OTHER -> LET v == Eval(it[2], env) IN
                         IF IsErr(v) THEN [acc EXCEPT !.err = TRUE, !.cls = "runtime"]
                         ELSE [acc EXCEPT !.cells = Append(@, v), !.kinds = Append(@, "CONST")])

Acc0 == [cells |-> <<>>, kinds |-> <<>>, upos |-> 0, ulist |-> <<>>, nun |-> 0, err |-> FALSE, cls |-> ""]

RECURSIVE EvalKeys(_, _)
EvalKeys(es, env) == IF es = <<>> THEN <<>> ELSE <<Eval(es[1], env)>> \o EvalKeys(Tail(es), env)
AnyErr(vs) == \E k \in 1..Len(vs) : IsErr(vs[k])

\* outcome of one SELECT pair: [err, cls, rows, key, gkey, folded]
PairOut(i, j) ==
    LET env == EnvOf(i, j, 0)
        w   == Eval(q.where, env)
        E(c) == [err |-> TRUE, cls |-> c, rows |-> <<>>, key |-> <<>>, gkey |-> <<>>, folded |-> <<>>, kinds |-> <<>>, pass |-> FALSE]
    IN IF IsErr(w) THEN E("runtime")
       ELSE IF ~Truthy(w) THEN [err |-> FALSE, cls |-> "", rows |-> <<>>, key |-> <<>>, gkey |-> <<>>, folded |-> <<>>, kinds |-> <<>>, pass |-> FALSE]
       ELSE LET acc == IF q.hasexc THEN [Acc0 EXCEPT !.cells = Except(env.a, q.exc), !.kinds = Consts(Len(Except(env.a, q.exc)))] ELSE EvalItems(q.items, env, Acc0) IN
            IF acc.err THEN E(acc.cls)
            ELSE LET gk == EvalKeys(q.group, env)
                     sk == EvalKeys(q.order, env) IN
                 IF Aggregated(q) /\ AnyErr(gk) THEN E("runtime")
                 ELSE IF ~Aggregated(q) /\ AnyErr(sk) THEN E("runtime")
                 ELSE [err |-> FALSE, cls |-> "",
                       rows |-> IF acc.upos = 0 THEN <<acc.cells>>
                                ELSE [k \in 1..Len(acc.ulist) |-> [acc.cells EXCEPT ![acc.upos] = acc.ulist[k]]],
                       key |-> sk, gkey |-> gk, folded |-> acc.cells, kinds |-> acc.kinds, pass |-> TRUE]

--------------------------------------------------------------------------
(* UPDATE of one record (C05) *)

\* Declarative: every assigned field gets its right-hand side evaluated on the record's ORIGINAL values (so
\* `a1 = a2, a2 = a1` swaps), every other field is untouched; assigning beyond NF fails naming the field.
\* The first failing assignment (left to right) determines the error.
LastAsgTo(asg, k) == LET idx == {m \in 1..Len(asg) : asg[m][1] = k} IN
                     IF idx = {} THEN 0 ELSE CHOOSE m \in idx : \A n \in idx : n <= m
FirstBadAsg(asg, env, rec) == LET bad == {m \in 1..Len(asg) : IsErr(Eval(asg[m][2], env)) \/ asg[m][1] > Len(rec)} IN
                              IF bad = {} THEN 0 ELSE CHOOSE m \in bad : \A n \in bad : m <= n
AssignRef(asg, env, rec) ==
    LET fb == FirstBadAsg(asg, env, rec) IN
    IF fb # 0 THEN [err |-> TRUE, fld |-> IF IsErr(Eval(asg[fb][2], env)) THEN 0 ELSE asg[fb][1], rec |-> rec]
    ELSE [err |-> FALSE, fld |-> 0,
          rec |-> [k \in 1..Len(rec) |-> IF LastAsgTo(asg, k) = 0 THEN rec[k] ELSE Eval(asg[LastAsgTo(asg, k)][2], env)]]

\* Operational (the generated code): up_fields = copy(record_a); variables are initialised from record_a before any
\* safe_set; the assignments then run in order on up_fields.
RECURSIVE ApplyAssign(_, _, _)
ApplyAssign(asg, env, up) ==
    IF asg = <<>> THEN [err |-> FALSE, fld |-> 0, rec |-> up]
    ELSE LET v == Eval(asg[1][2], IF MUT = "sequential_assign" THEN [env EXCEPT !.a = up] ELSE env) IN
         IF IsErr(v) THEN [err |-> TRUE, fld |-> 0, rec |-> up]
         ELSE IF asg[1][1] > Len(up) THEN [err |-> TRUE, fld |-> asg[1][1], rec |-> up]
         ELSE ApplyAssign(Tail(asg), env, [up EXCEPT ![asg[1][1]] = v])

\* outcome of one UPDATE unit given the count of records updated before it
UpdOutG(u, nubefore, oper) ==
    IF u.kind = "nopartner" THEN [err |-> FALSE, fld |-> 0, row |-> RecA(u.i), upd |-> FALSE]
    ELSE LET env0 == EnvOf(u.i, u.j, nubefore)
             w    == Eval(q.where, env0) IN
         IF IsErr(w) THEN [err |-> TRUE, fld |-> 0, row |-> <<>>, upd |-> FALSE]
         ELSE IF ~Truthy(w) THEN [err |-> FALSE, fld |-> 0, row |-> RecA(u.i), upd |-> FALSE]
         ELSE LET r == IF oper THEN ApplyAssign(q.assign, [env0 EXCEPT !.nu = nubefore + 1], RecA(u.i))
                       ELSE AssignRef(q.assign, [env0 EXCEPT !.nu = nubefore + 1], RecA(u.i)) IN
              [err |-> r.err, fld |-> r.fld, row |-> r.rec, upd |-> TRUE]

--------------------------------------------------------------------------
(* sort / distinct (C02) *)

RECURSIVE InsertSorted(_, _)
\* insert e behind every entry whose key is <= e.key: ties keep emission order
InsertSorted(s, e) == IF s = <<>> THEN <<e>>
                      ELSE IF KeyLess(e.key, s[1].key) THEN <<e>> \o s
                      ELSE <<s[1]>> \o InsertSorted(Tail(s), e)
RECURSIVE SortStable(_)
SortStable(s) == IF s = <<>> THEN <<>> ELSE InsertSorted(SortStable(SubSeq(s, 1, Len(s) - 1)), s[Len(s)])

\* DESC is exactly the reverse of the ascending sequence (C02); a mutant keeps ties in emission order instead
RECURSIVE InsertSortedDesc(_, _)
InsertSortedDesc(s, e) == IF s = <<>> THEN <<e>>
                          ELSE IF KeyLess(s[1].key, e.key) THEN <<e>> \o s
                          ELSE <<s[1]>> \o InsertSortedDesc(Tail(s), e)
RECURSIVE SortDescFlag(_)
SortDescFlag(s) == IF s = <<>> THEN <<>> ELSE InsertSortedDesc(SortDescFlag(SubSeq(s, 1, Len(s) - 1)), s[Len(s)])

\* what the statement prescribes ...
Ordered(entries, desc) == IF desc THEN Reverse(SortStable(entries)) ELSE SortStable(entries)
\* ... and what SortedWriter.finish does: sorted(); reverse() -- the mutant sorts with a descending comparison instead
OrderedImpl(entries, desc) == IF desc THEN (IF MUT = "desc_reverse_flag" THEN SortDescFlag(entries) ELSE Reverse(SortStable(entries)))
                              ELSE SortStable(entries)

RowsOf(entries) == [k \in 1..Len(entries) |-> entries[k].row]

RECURSIVE CountIn(_, _)
CountIn(s, x) == IF s = <<>> THEN 0 ELSE (IF s[1] = x THEN 1 ELSE 0) + CountIn(Tail(s), x)
DedupCount(rows) == LET d == Dedup(rows) IN [k \in 1..Len(d) |-> <<IntV(CountIn(rows, d[k]))>> \o d[k]]

Dist(mode, rows) == CASE mode = "uniq" -> Dedup(rows) [] mode = "count" -> DedupCount(rows) [] OTHER -> rows

--------------------------------------------------------------------------
(* aggregates (C03): declarative definitions over the list of a group's values, in input order *)

RECURSIVE SumOf(_)
SumOf(vs) == IF vs = <<>> THEN IntV(0) ELSE NAdd(vs[1], SumOf(Tail(vs)))
RECURSIVE SumSq(_)
SumSq(vs) == IF vs = <<>> THEN IntV(0) ELSE NAdd(NMul(vs[1], vs[1]), SumSq(Tail(vs)))
MinOf(vs) == vs[CHOOSE k \in 1..Len(vs) : \A m \in 1..Len(vs) : ~VLess(vs[m], vs[k])]
MaxOf(vs) == vs[CHOOSE k \in 1..Len(vs) : \A m \in 1..Len(vs) : ~VLess(vs[k], vs[m])]
RECURSIVE InsNum(_, _)
InsNum(s, x) == IF s = <<>> THEN <<x>> ELSE IF NLess(x, s[1]) THEN <<x>> \o s ELSE <<s[1]>> \o InsNum(Tail(s), x)
RECURSIVE SortNum(_)
SortNum(vs) == IF vs = <<>> THEN <<>> ELSE InsNum(SortNum(Tail(vs)), vs[1])
MedianOf(vs) == LET s == SortNum(vs) n == Len(vs) IN
                IF n % 2 = 1 THEN s[(n + 1) \div 2] ELSE NDivInt(NAdd(s[n \div 2], s[n \div 2 + 1]), 2)
AvgOf(vs) == NDivInt(SumOf(vs), Len(vs))
\* population variance: mean of squares minus square of the mean
VarOf(vs) == LET m == AvgOf(vs) IN NSub(NDivInt(SumSq(vs), Len(vs)), NMul(m, m))

RECURSIVE MapNum(_)
MapNum(vs) == IF vs = <<>> THEN <<>> ELSE <<ToNum(vs[1])>> \o MapNum(Tail(vs))

NumericAgg(f) == f \in {"MIN", "MAX", "SUM", "AVG", "VARIANCE", "MEDIAN"}

\* value of aggregate f over the group's argument values (raw values, input order); Err if a value is not numeric
AggOf(f, raw) ==
    IF f = "COUNT" THEN IntV(Len(raw))
    ELSE IF f = "ARRAY_AGG" THEN Lst(raw)
    ELSE IF f = "ANY_VALUE" THEN <<"any", raw>>                    \* some value of the group (comparator honours the set)
    ELSE LET vs == MapNum(raw) IN
         IF AnyErr(vs) THEN Err
         ELSE CASE f = "MIN" -> MinOf(vs) [] f = "MAX" -> MaxOf(vs) [] f = "SUM" -> SumOf(vs)
                [] f = "AVG" -> AvgOf(vs) [] f = "VARIANCE" -> VarOf(vs) [] f = "MEDIAN" -> MedianOf(vs)

--------------------------------------------------------------------------
(* output header (C07) *)

Col(k) == "col" \o ToString(k)
ExprName(e, pos, ha, hb) ==
    CASE e[1] = "fld" -> IF e[2] = "a" THEN (IF e[3] <= Len(ha) THEN ha[e[3]] ELSE Col(pos))
                         ELSE (IF e[3] <= Len(hb) THEN hb[e[3]] ELSE Col(pos))
      [] e[1] \in {"NR", "NF", "bNR", "bNF", "NU"} -> e[1]
      [] OTHER -> Col(pos)

RECURSIVE HeaderFrom(_, _, _, _)
HeaderFrom(items, h, ha, hb) ==
    IF items = <<>> THEN h
    ELSE LET it == items[1] pos == Len(h) + 1 IN
         HeaderFrom(Tail(items),
                    CASE it[1] = "as"    -> Append(h, it[3])
                      [] it[1] = "star"  -> h \o ha \o hb
                      [] it[1] = "astar" -> h \o ha
                      [] it[1] = "bstar" -> h \o hb
                      [] it[1] = "e"     -> Append(h, ExprName(it[2], pos, ha, hb))
                      [] OTHER           -> Append(h, Col(pos)),
                    ha, hb)

\* [has, names, perr]: perr = star + alias without an input header is a parsing error
HeaderRef ==
    IF q.kind = "update" THEN [has |-> hasHdr, names |-> HdrA, perr |-> FALSE]
    ELSE IF q.hasexc THEN [has |-> hasHdr, names |-> (IF q.distinct = "count" THEN <<Col(1)>> ELSE <<>>) \o Except(HdrA, q.exc), perr |-> FALSE]      \* DISTINCT COUNT prefixes the count column here too
    ELSE IF ~hasHdr /\ HasStar(q.items) /\ HasAlias(q.items) THEN [has |-> FALSE, names |-> <<>>, perr |-> TRUE]
    ELSE IF ~hasHdr /\ ~HasAlias(q.items) THEN [has |-> FALSE, names |-> <<>>, perr |-> FALSE]
    ELSE [has |-> TRUE,
          names |-> HeaderFrom(q.items, IF q.distinct = "count" /\ MUT # "distinct_count_header_short" THEN <<Col(1)>> ELSE <<>>, HdrA, HdrB),
          perr |-> FALSE]

--------------------------------------------------------------------------
(* mistakes detectable from the query alone (parsing errors, before any record is written) *)

\* checked before the join table is read ...
IOFault == (q.iofault = "hdr_len" /\ A # <<>> /\ hasHdr) \/ (q.iofault = "join_hdr_missing" /\ hasHdr /\ q.join # "none")
PreJoinParseError ==
    \/ q.mistake # ""
    \/ (q.kind = "update" /\ Sorted(q))
    \/ (q.hasgroup /\ (Sorted(q) \/ q.kind = "update"))
\* ... and after it (shallow_parse_input_query builds the join map in between)
PostJoinParseError ==
    \/ (q.hasexc /\ q.join # "none")
    \/ HeaderRef.perr

\* detected on the first record that passes WHERE
AggParseError == Aggregated(q) /\ (Sorted(q) \/ q.distinct # "none")

--------------------------------------------------------------------------
(* Ref: the declarative meaning *)

AllUnits == Flatten([i \in 1..Len(A) |-> UnitsOf(i)])

NoErr   == <<>>
ErrOf(cls, n, f) == << [cls |-> cls, nr |-> n, fld |-> f] >>

\* a parsing-class failure detected while evaluating (two UNNESTs) names no record
ErrAt(o) == ErrOf(o.cls, IF o.cls = "parsing" THEN 0 ELSE o.i, o.fld)
UnitErrCls(u) == IF u.kind = "pair" \/ u.kind = "nopartner" THEN "" ELSE "runtime"

\* SELECT, not aggregated
SelOuts == [k \in 1..Len(AllUnits) |->
              LET u == AllUnits[k] IN
              IF u.kind # "pair" THEN [err |-> TRUE, cls |-> "runtime", fld |-> u.fld, rows |-> <<>>, key |-> <<>>, gkey |-> <<>>, folded |-> <<>>, kinds |-> <<>>, pass |-> FALSE, i |-> u.i]
              ELSE LET p == PairOut(u.i, u.j) IN
                   [err |-> p.err, cls |-> p.cls, fld |-> 0, rows |-> p.rows, key |-> p.key, gkey |-> p.gkey, folded |-> p.folded, kinds |-> p.kinds, pass |-> p.pass, i |-> u.i]]

FirstErrIdx(outs) == LET bad == {k \in 1..Len(outs) : outs[k].err} IN
                     IF bad = {} THEN 0 ELSE CHOOSE k \in bad : \A m \in bad : k <= m

EntriesOf(outs, upto) == Flatten([k \in 1..upto |-> [m \in 1..Len(outs[k].rows) |-> [row |-> outs[k].rows[m], key |-> outs[k].key, unit |-> k]]])

\* entries that reach the TopWriter in a streaming query: all, or first occurrences under DISTINCT
RECURSIVE FirstOcc(_, _)
FirstOcc(es, seenrows) == IF es = <<>> THEN <<>>
                          ELSE IF Member(seenrows, es[1].row) THEN FirstOcc(Tail(es), seenrows)
                          ELSE <<es[1]>> \o FirstOcc(Tail(es), Append(seenrows, es[1].row))
Reaching(es) == IF q.distinct = "uniq" THEN FirstOcc(es, <<>>) ELSE es

\* groups: keys in ascending order; per key the passing units in input order
GroupKeysOf(outs) == LET ks == Dedup([k \in 1..Len(outs) |-> outs[k].gkey]) IN
                     LET es == [k \in 1..Len(ks) |-> [key |-> ks[k], row |-> ks[k]]] IN RowsOf(SortStable(es))
ColumnRaw(outs, key, c) == LET idx == {k \in 1..Len(outs) : outs[k].gkey = key} IN
                           LET F[k \in 0..Len(outs)] == IF k = 0 THEN <<>> ELSE IF k \in idx THEN Append(F[k - 1], outs[k].folded[c]) ELSE F[k - 1]
                           IN F[Len(outs)]

AggRef(passing) ==
    \* passing: the SelOuts entries with pass = TRUE, in input order
    LET keys == GroupKeysOf(passing)
        \* the output columns are the cells of the evaluated select list (star forms contribute one column per field);
        \* their kinds are discovered on the first passing record
        kinds == IF passing = <<>> THEN <<>> ELSE passing[1].kinds
        ncol == Len(kinds)
        Cell(key, c) == LET raw == ColumnRaw(passing, key, c) IN
                        IF kinds[c] # "CONST" THEN AggOf(kinds[c], raw)
                        ELSE IF \A m \in 1..Len(raw) : VEq(raw[m], raw[1]) THEN raw[1] ELSE <<"NONCONST">>
        rows == [k \in 1..Len(keys) |-> [c \in 1..ncol |-> Cell(keys[k], c)]]
        bad  == \E k \in 1..Len(rows) : \E c \in 1..ncol : rows[k][c] = Err \/ rows[k][c] = <<"NONCONST">>
    IN [rows |-> rows, bad |-> bad]

\* aggregate queries: a passing unit fails if a numeric aggregate meets a non-numeric value, or a non-aggregate
\* column differs from the first value of its group (the accumulators check while accumulating)
AggUnitBad(outs, k) ==
    /\ outs[k].pass
    /\ \E c \in 1..Len(outs[k].kinds) :
         IF outs[k].kinds[c] # "CONST" THEN NumericAgg(outs[k].kinds[c]) /\ IsErr(ToNum(outs[k].folded[c]))
         ELSE \E m \in 1..(k - 1) : outs[m].pass /\ outs[m].gkey = outs[k].gkey /\ ~VEq(outs[m].folded[c], outs[k].folded[c])
                                    /\ (\A n \in 1..(m - 1) : ~(outs[n].pass /\ outs[n].gkey = outs[k].gkey))

RefSelect ==
    LET outs == SelOuts
        fe0  == FirstErrIdx(outs)
        up0  == IF fe0 = 0 THEN Len(outs) ELSE fe0 - 1
        \* first passing unit: aggregate columns are discovered there (parse-class mistakes surface at that point)
        fp   == LET ps == {k \in 1..up0 : outs[k].pass} IN IF ps = {} THEN 0 ELSE CHOOSE k \in ps : \A m \in ps : k <= m
        ab   == LET bs == {k \in 1..up0 : AggUnitBad(outs, k)} IN IF bs = {} THEN 0 ELSE CHOOSE k \in bs : \A m \in bs : k <= m
        fe   == fe0
        upto == up0
        es   == EntriesOf(outs, upto)
    IN IF Aggregated(q)
       THEN IF fp # 0 /\ AggParseError THEN [out |-> <<>>, err |-> ErrOf("parsing", 0, 0), stopunit |-> 0]
            ELSE IF ab # 0 THEN [out |-> <<>>, err |-> ErrOf("runtime", outs[ab].i, 0), stopunit |-> 0]
            ELSE IF fe # 0 THEN [out |-> <<>>, err |-> ErrAt(outs[fe]), stopunit |-> 0]
            ELSE LET ar == AggRef(SelectSeq(outs, LAMBDA o : o.pass)) IN
                 IF ar.bad THEN [out |-> <<>>, err |-> ErrOf("runtime", -1, 0), stopunit |-> 0]      \* cannot happen (AggUnitBad covers it); kept as a guard
                 ELSE [out |-> IF q.hastop THEN Take(q.top, ar.rows) ELSE ar.rows, err |-> NoErr, stopunit |-> 0]
       ELSE IF Streaming(q)
       THEN LET reach == Reaching(es) IN
            IF Len(reach) > q.top
            THEN [out |-> RowsOf(Take(q.top, reach)), err |-> NoErr, stopunit |-> reach[q.top + 1].unit]
            ELSE IF fe # 0 THEN [out |-> <<>>, err |-> ErrAt(outs[fe]), stopunit |-> 0]
            ELSE [out |-> RowsOf(reach), err |-> NoErr, stopunit |-> 0]
       ELSE IF fe # 0 THEN [out |-> <<>>, err |-> ErrAt(outs[fe]), stopunit |-> 0]
       ELSE LET ordered == IF Sorted(q) THEN Ordered(es, q.desc) ELSE es
                dist    == Dist(q.distinct, RowsOf(ordered))
            IN [out |-> IF q.hastop THEN Take(q.top, dist) ELSE dist, err |-> NoErr, stopunit |-> 0]

\* UPDATE: one output row per input record; NU counts the records updated so far
RECURSIVE UpdFold(_, _, _)
UpdFold(k, nuv, rows) ==
    IF k > Len(AllUnits) THEN [out |-> rows, err |-> NoErr]
    ELSE LET u == AllUnits[k] IN
         IF u.kind \in {"keyerr", "multierr", "stricterr"} THEN [out |-> <<>>, err |-> ErrOf("runtime", u.i, u.fld)]
         ELSE LET o == UpdOutG(u, nuv, FALSE) IN
              IF o.err THEN [out |-> <<>>, err |-> ErrOf("runtime", u.i, o.fld)]
              ELSE UpdFold(k + 1, IF o.upd THEN nuv + 1 ELSE nuv, Append(rows, o.row))

Ref ==
    IF IOFault THEN [out |-> <<>>, err |-> ErrOf("io", 0, 0), stopunit |-> 0]
    ELSE IF PreJoinParseError THEN [out |-> <<>>, err |-> ErrOf("parsing", 0, 0), stopunit |-> 0]
    ELSE IF q.join # "none" /\ FirstBadB # 0 THEN [out |-> <<>>, err |-> ErrOf("runtime", FirstBadB, -BadKeyFieldB(FirstBadB)), stopunit |-> 0]
    ELSE IF PostJoinParseError THEN [out |-> <<>>, err |-> ErrOf("parsing", 0, 0), stopunit |-> 0]
    ELSE IF q.init = "raise" THEN [out |-> <<>>, err |-> ErrOf("unexpected", 0, 0), stopunit |-> 0]
    ELSE IF q.kind = "update" THEN LET r == UpdFold(1, 0, <<>>) IN [out |-> r.out, err |-> r.err, stopunit |-> 0]
    ELSE RefSelect

\* The statements fix WHAT a bounded query returns and that it stops pulling once the bound is reached (C02), not whether the engine looks at
\* the candidate after the N-th row before it stops.  The tree does (TopWriter refuses the (N+1)-th write), so an error raised by a record that
\* lies between the N-th row and that candidate is reported; an engine that stops right after the N-th row never evaluates that record and
\* returns the N rows.  Both satisfy C02 and C14 ("a failure while evaluating ... on some record"): RefAlt is the second acceptable outcome.
RefAlt ==
    IF IOFault \/ PreJoinParseError \/ (q.join # "none" /\ FirstBadB # 0) \/ PostJoinParseError \/ q.init = "raise" \/ q.kind # "select"
       \/ ~Streaming(q) \/ q.top < 1 \/ Ref.err = NoErr
    THEN [has |-> FALSE, out |-> <<>>]
    ELSE LET outs  == SelOuts
             fe0   == FirstErrIdx(outs)
             reach == Reaching(EntriesOf(outs, IF fe0 = 0 THEN Len(outs) ELSE fe0 - 1))
         IN IF fe0 # 0 /\ Len(reach) = q.top
            THEN [has |-> TRUE, out |-> IF breakAt = 0 THEN RowsOf(reach) ELSE Take(breakAt - 1, RowsOf(reach))]
            ELSE [has |-> FALSE, out |-> <<>>]

\* with a fault plan the leaf accepts only the first breakAt-1 rows
RefOut == IF breakAt = 0 THEN Ref.out ELSE Take(breakAt - 1, Ref.out)

\* number of get_record calls a bounded streaming query may make (C02, weak reading: it stops at the record
\* that yields the first candidate exceeding the bound)
PullLimit == IF Ref.err = NoErr /\ Ref.stopunit # 0 THEN AllUnits[Ref.stopunit].i ELSE Len(A) + 1

--------------------------------------------------------------------------
(* writer-protocol monitor (C15): deterministic, stepped on every leaf event *)

\* M0, MStep: see Monitors.tla (the same operators judge recorded executions of the real engine)

--------------------------------------------------------------------------
(* the machine *)

Init == /\ q = BaseQ /\ A = <<>> /\ B = <<>> /\ hasHdr = FALSE /\ breakAt = 0
        /\ pc = "setupA"
        /\ bi = 0 /\ maxlenB = 0 /\ nr = 0 /\ nu = 0 /\ pulled = 0
        /\ matches = <<>> /\ cands = <<>> /\ candkey = <<>> /\ uset = FALSE /\ stop = FALSE
        /\ sortbuf = <<>> /\ seen = <<>> /\ counts = <<>> /\ nw = 0
        /\ aggst = 0 /\ aggcols = <<>> /\ aggkeys = <<>>
        /\ fphase = 0 /\ fq = <<>>
        /\ out = <<>> /\ hdr = <<>> /\ hdrset = FALSE /\ leafcalls = 0
        /\ mon = M0 /\ err = NoErr

runvars == <<bi, maxlenB, nr, nu, pulled, matches, cands, candkey, uset, stop, sortbuf, seen, counts, nw, aggst, aggcols, aggkeys, fphase, fq, out, hdr, hdrset, leafcalls, mon, err>>

\* ---- setup: build the case step by step (DESIGN 3: setup actions, not a huge Init set) ----
GrowA == /\ pc = "setupA" /\ Len(A) < MaxA
         /\ \E r \in RecsA : A' = Append(A, r)
         /\ UNCHANGED <<q, B, hasHdr, breakAt, pc>> /\ UNCHANGED runvars
DoneA == /\ pc = "setupA" /\ pc' = "setupB"
         /\ UNCHANGED <<q, A, B, hasHdr, breakAt>> /\ UNCHANGED runvars
GrowB == /\ pc = "setupB" /\ Len(B) < MaxB
         /\ \E r \in RecsB : B' = Append(B, r)
         /\ UNCHANGED <<q, A, hasHdr, breakAt, pc>> /\ UNCHANGED runvars
ChooseQ == /\ pc = "setupB"
           /\ \E qq \in Queries, h \in HdrModes, bp \in BreakPoints :
                /\ (qq.join = "none" => B = <<>>)
                /\ q' = qq /\ hasHdr' = h /\ breakAt' = bp
           /\ pc' = "parse"
           /\ UNCHANGED <<A, B>> /\ UNCHANGED runvars

Fail(cls, n, f) == /\ err' = ErrOf(cls, n, f) /\ pc' = "error"

\* ---- shallow parse: static checks; then the join map is built, then the header is set ----
Parse == /\ pc = "parse"
         /\ IF IOFault \/ PreJoinParseError
            THEN /\ Fail(IF IOFault THEN "io" ELSE "parsing", 0, 0) /\ UNCHANGED <<bi, maxlenB, nr, nu, pulled, matches, cands, candkey, uset, stop, sortbuf, seen, counts, nw, aggst, aggcols, aggkeys, fphase, fq, out, hdr, hdrset, leafcalls, mon>>
            ELSE /\ pc' = IF q.join = "none" THEN "header" ELSE "buildB"
                 /\ aggst' = IF q.hasgroup THEN 1 ELSE 0
                 /\ UNCHANGED <<bi, maxlenB, nr, nu, pulled, matches, cands, candkey, uset, stop, sortbuf, seen, counts, nw, aggcols, aggkeys, fphase, fq, out, hdr, hdrset, leafcalls, mon, err>>
         /\ UNCHANGED <<q, A, B, hasHdr, breakAt>>

\* one b.get_record per step
BuildB == /\ pc = "buildB"
          /\ IF bi = Len(B)
             THEN /\ pc' = "header" /\ UNCHANGED <<bi, maxlenB, err>>
             ELSE LET j == bi + 1 IN
                  IF BadKeyFieldB(j) # 0
                  THEN /\ Fail("runtime", j, -BadKeyFieldB(j)) /\ bi' = j /\ UNCHANGED maxlenB
                  ELSE /\ bi' = j /\ maxlenB' = (IF Len(B[j]) > maxlenB THEN Len(B[j]) ELSE maxlenB) /\ UNCHANGED <<pc, err>>
          /\ UNCHANGED <<q, A, B, hasHdr, breakAt, nr, nu, pulled, matches, cands, candkey, uset, stop, sortbuf, seen, counts, nw, aggst, aggcols, aggkeys, fphase, fq, out, hdr, hdrset, leafcalls, mon>>

SetHeader == /\ pc = "header"
             /\ IF PostJoinParseError
                THEN /\ Fail("parsing", 0, 0) /\ UNCHANGED <<hdr, hdrset, mon>>
                ELSE /\ hdr' = HeaderRef.names /\ hdrset' = HeaderRef.has
                     /\ mon' = MStep(mon, "set_header", TRUE)
                     /\ pc' = "init" /\ UNCHANGED err
             /\ UNCHANGED <<q, A, B, hasHdr, breakAt, bi, maxlenB, nr, nu, pulled, matches, cands, candkey, uset, stop, sortbuf, seen, counts, nw, aggst, aggcols, aggkeys, fphase, fq, out, leafcalls>>

\* the user's init code runs once, after the header has been handed over and before the first record is pulled;
\* an exception there is reported as such ("Exception while executing user-provided init code"), class "unexpected"
RunInit == /\ pc = "init"
           /\ IF q.init = "raise" THEN Fail("unexpected", 0, 0) ELSE /\ pc' = "loop" /\ UNCHANGED err
           /\ UNCHANGED <<q, A, B, hasHdr, breakAt, bi, maxlenB, nr, nu, pulled, matches, cands, candkey, uset, stop, sortbuf, seen, counts, nw, aggst, aggcols, aggkeys, fphase, fq, out, hdr, hdrset, leafcalls, mon>>

\* ---- the leaf writer and the chain above it ----
\* result of handing `row` to the leaf: [ok, out, leafcalls, mon]
LeafWrite(row, st) ==
    LET n  == st.leafcalls + 1
        ok == (breakAt = 0 \/ n < breakAt) IN
    [st EXCEPT !.ok = ok, !.leafcalls = n, !.out = IF ok THEN Append(st.out, row) ELSE st.out, !.mon = MStep(st.mon, "write", ok)]

\* TopWriter: learns that the bound is reached only on the next write attempt
PushTop(row, st) ==
    IF q.kind = "select" /\ q.hastop /\ (IF MUT = "top_gt" THEN st.nw > q.top ELSE st.nw >= q.top) THEN [st EXCEPT !.ok = FALSE]
    ELSE LET s2 == LeafWrite(row, st) IN IF s2.ok THEN [s2 EXCEPT !.nw = @ + 1] ELSE s2

\* UniqWriter / UniqCountWriter
RECURSIVE BumpCount(_, _)
BumpCount(cs, row) == IF cs = <<>> THEN << <<row, 1>> >>
                      ELSE IF cs[1][1] = row THEN << <<row, cs[1][2] + 1>> >> \o Tail(cs)
                      ELSE <<cs[1]>> \o BumpCount(Tail(cs), row)
PushUniq(row, st) ==
    IF q.distinct = "uniq"
    THEN IF Member(st.seen, row) THEN (IF MUT = "uniq_keeps_last" THEN PushTop(row, st) ELSE [st EXCEPT !.ok = TRUE])
         ELSE PushTop(row, [st EXCEPT !.seen = Append(@, row)])
    ELSE IF q.distinct = "count" THEN [st EXCEPT !.counts = BumpCount(@, row), !.ok = TRUE]
    ELSE PushTop(row, st)

\* SortedWriter (buffers) on top
PushChain(row, key, st) ==
    IF Sorted(q) THEN [st EXCEPT !.sortbuf = Append(@, [row |-> row, key |-> key]), !.ok = TRUE]
    ELSE PushUniq(row, st)

ChainState == [ok |-> TRUE, out |-> out, leafcalls |-> leafcalls, mon |-> mon, nw |-> nw, seen |-> seen, counts |-> counts, sortbuf |-> sortbuf]
SetChain(s) == /\ out' = s.out /\ leafcalls' = s.leafcalls /\ mon' = s.mon /\ nw' = s.nw
               /\ seen' = s.seen /\ counts' = s.counts /\ sortbuf' = s.sortbuf

\* ---- main loop ----
Pull == /\ pc = "loop"
        /\ IF stop /\ MUT # "no_stop_on_false"
           THEN /\ pc' = "finish" /\ UNCHANGED <<nr, pulled>>
           ELSE \* with an endless (cyclic) input the record counter wraps and the pull counter saturates: the state space stays
                \* finite without a state constraint, so that a query that never stops shows up as a fair cycle (liveness)
                /\ pulled' = IF Cyclic /\ pulled >= PullSat THEN pulled ELSE pulled + 1
                /\ IF (nr = Len(A) /\ ~Cyclic) \/ A = <<>> THEN /\ pc' = "finish" /\ UNCHANGED nr
                   ELSE /\ nr' = (IF Cyclic THEN (nr % Len(A)) + 1 ELSE nr + 1) /\ pc' = "rec"
        /\ UNCHANGED <<q, A, B, hasHdr, breakAt, bi, maxlenB, nu, matches, cands, candkey, uset, stop, sortbuf, seen, counts, nw, aggst, aggcols, aggkeys, fphase, fq, out, hdr, hdrset, leafcalls, mon, err>>

\* join_map.get_rhs(key) for the current record (SELECT), or the whole record for UPDATE
StartRecord ==
    /\ pc = "rec"
    /\ LET us == UnitsOf(nr) IN
       IF q.kind = "select"
       THEN IF us # <<>> /\ us[1].kind # "pair"
            THEN /\ Fail("runtime", nr, us[1].fld) /\ UNCHANGED <<matches, nu, A, stop, out, leafcalls, mon, nw, seen, counts, sortbuf>>
            ELSE /\ matches' = [k \in 1..Len(us) |-> us[k].j] /\ pc' = "match"
                 /\ UNCHANGED <<err, nu, A, stop, out, leafcalls, mon, nw, seen, counts, sortbuf>>
       ELSE LET u == us[1] IN
            IF u.kind \in {"keyerr", "multierr", "stricterr"}
            THEN /\ Fail("runtime", nr, u.fld) /\ UNCHANGED <<matches, nu, A, stop, out, leafcalls, mon, nw, seen, counts, sortbuf>>
            ELSE LET o == UpdOutG(u, nu, TRUE) IN
                 IF o.err THEN /\ Fail("runtime", nr, o.fld) /\ UNCHANGED <<matches, nu, stop, out, leafcalls, mon, nw, seen, counts, sortbuf>>
                               /\ A' = IF MUT = "alias_up_fields" /\ o.row # <<>> THEN [A EXCEPT ![nr] = o.row] ELSE A
                 ELSE LET s2 == LeafWrite(o.row, ChainState) IN
                      /\ SetChain(s2)
                      /\ nu' = IF o.upd THEN nu + 1 ELSE nu
                      /\ stop' = (stop \/ ~s2.ok)
                      /\ A' = IF MUT = "alias_up_fields" THEN [A EXCEPT ![nr] = o.row] ELSE A
                      /\ pc' = "loop" /\ UNCHANGED <<matches, err>>
    /\ uset' = FALSE
    /\ UNCHANGED <<q, B, hasHdr, breakAt, bi, maxlenB, nr, pulled, cands, candkey, aggst, aggcols, aggkeys, fphase, fq, hdr, hdrset>>

\* aggregate accumulators: one per output column: [f, keys |-> Seq(key), vals |-> Seq(Seq(raw value))]
AccPut(col, key, v) ==
    IF \E k \in 1..Len(col.keys) : col.keys[k] = key
    THEN LET k == CHOOSE k \in 1..Len(col.keys) : col.keys[k] = key IN [col EXCEPT !.vals[k] = Append(@, v)]
    ELSE [col EXCEPT !.keys = Append(@, key), !.vals = Append(@, <<v>>)]

\* one join match: evaluate WHERE and the select list for the pair (nr, head of matches)
Match ==
    /\ pc = "match"
    /\ IF matches = <<>> \/ (stop /\ MUT # "no_stop_on_false")
       THEN /\ pc' = "loop" /\ matches' = <<>> /\ UNCHANGED <<cands, candkey, uset, err, aggst, aggcols, aggkeys>>
       ELSE LET p == PairOut(nr, matches[1]) IN
            IF MUT = "unnest_reset_per_record" /\ ~p.err /\ p.pass /\ uset /\ (\E k \in 1..Len(q.items) : IsUnnestItem(q.items[k]))
            THEN /\ Fail("parsing", 0, 0) /\ UNCHANGED <<matches, cands, candkey, uset, aggst, aggcols, aggkeys>>
            ELSE IF p.err
            THEN /\ Fail(p.cls, IF p.cls = "parsing" THEN 0 ELSE nr, 0) /\ UNCHANGED <<matches, cands, candkey, uset, aggst, aggcols, aggkeys>>
            ELSE IF ~p.pass
            THEN /\ matches' = Tail(matches) /\ UNCHANGED <<pc, cands, candkey, uset, err, aggst, aggcols, aggkeys>>
            ELSE IF Aggregated(q)
            THEN \* first-record discovery of the aggregate columns, then accumulation (select_aggregated)
                 IF aggst < 2 /\ AggParseError
                 THEN /\ Fail("parsing", 0, 0) /\ UNCHANGED <<matches, cands, candkey, uset, aggst, aggcols, aggkeys>>
                 ELSE LET cols0 == IF aggst < 2 THEN [c \in 1..Len(p.kinds) |-> [f |-> p.kinds[c], keys |-> <<>>, vals |-> <<>>]]
                                   ELSE aggcols
                          cols1 == [c \in 1..Len(cols0) |-> AccPut(cols0[c], p.gkey, p.folded[c])]
                          \* the implementation converts / verifies while accumulating: a bad value fails at this record
                          badnum == \E c \in 1..Len(cols1) : NumericAgg(cols1[c].f) /\ IsErr(ToNum(p.folded[c]))
                          nonconst == \E c \in 1..Len(cols1) : cols1[c].f = "CONST" /\
                                        LET k == CHOOSE k \in 1..Len(cols1[c].keys) : cols1[c].keys[k] = p.gkey IN ~VEq(cols1[c].vals[k][1], p.folded[c])
                      IN IF badnum \/ nonconst
                         THEN /\ Fail("runtime", nr, 0) /\ UNCHANGED <<matches, cands, candkey, uset, aggst, aggcols, aggkeys>>
                         ELSE /\ aggst' = 2 /\ aggcols' = cols1
                              /\ aggkeys' = IF Member(aggkeys, p.gkey) THEN aggkeys ELSE Append(aggkeys, p.gkey)
                              /\ matches' = Tail(matches)
                              /\ UNCHANGED <<pc, cands, candkey, uset, err>>
            ELSE /\ cands' = p.rows /\ candkey' = p.key /\ matches' = Tail(matches) /\ pc' = "feed"
                 /\ uset' = (uset \/ (\E k \in 1..Len(q.items) : IsUnnestItem(q.items[k])))
                 /\ UNCHANGED <<err, aggst, aggcols, aggkeys>>
    /\ UNCHANGED <<q, A, B, hasHdr, breakAt, bi, maxlenB, nr, nu, pulled, stop, sortbuf, seen, counts, nw, fphase, fq, out, hdr, hdrset, leafcalls, mon>>

\* one candidate row enters the writer chain (at most one leaf write)
Feed ==
    /\ pc = "feed"
    /\ IF cands = <<>>
       THEN /\ pc' = "match" /\ UNCHANGED <<cands, stop, out, leafcalls, mon, nw, seen, counts, sortbuf>>
       ELSE LET s2 == PushChain(cands[1], candkey, ChainState) IN
            /\ SetChain(s2)
            /\ IF s2.ok THEN /\ cands' = Tail(cands) /\ UNCHANGED <<stop, pc>>
               ELSE /\ stop' = TRUE /\ cands' = <<>> /\ pc' = "match"
    /\ UNCHANGED <<q, A, B, hasHdr, breakAt, bi, maxlenB, nr, nu, pulled, matches, candkey, uset, aggst, aggcols, aggkeys, fphase, fq, hdr, hdrset, err>>

\* ---- writer.finish(): drain the buffering writers, one pushed row per step, then the leaf's finish ----
AggFinalRows ==
    LET keys == RowsOf(SortStable([k \in 1..Len(aggkeys) |-> [key |-> aggkeys[k], row |-> aggkeys[k]]])) IN
    [k \in 1..Len(keys) |->
        [c \in 1..Len(aggcols) |->
            LET col == aggcols[c]
                kk  == CHOOSE m \in 1..Len(col.keys) : col.keys[m] = keys[k] IN
            IF col.f = "CONST" THEN col.vals[kk][1] ELSE AggOf(col.f, col.vals[kk])]]

Finish ==
    /\ pc = "finish"
    /\ CASE fphase = 0 ->   \* SortedWriter.finish: sort (stable), reverse for DESC          -- or AggregateWriter.finish
              /\ fphase' = 1
              /\ fq' = IF Aggregated(q) THEN (IF aggst = 2 THEN AggFinalRows ELSE <<>>)
                       ELSE IF Sorted(q) THEN RowsOf(OrderedImpl(sortbuf, q.desc)) ELSE <<>>
              /\ UNCHANGED <<stop, out, leafcalls, mon, nw, seen, counts, sortbuf, pc>>
         [] fphase = 1 ->   \* drain into Uniq|UniqCount -> Top -> leaf (aggregate rows go straight to Top)
              IF fq = <<>> THEN /\ fphase' = 2 /\ UNCHANGED <<fq, stop, out, leafcalls, mon, nw, seen, counts, sortbuf, pc>>
              ELSE LET s2 == IF Aggregated(q) THEN PushTop(fq[1], ChainState) ELSE PushUniq(fq[1], ChainState) IN
                   /\ SetChain(s2)
                   /\ fq' = IF s2.ok THEN Tail(fq) ELSE <<>>
                   /\ UNCHANGED <<fphase, stop, pc>>
         [] fphase = 2 ->   \* UniqCountWriter.finish: emit <<count>> \o row in first-occurrence order
              /\ fphase' = 3
              /\ fq' = IF q.distinct = "count" /\ ~Aggregated(q) THEN [k \in 1..Len(counts) |-> <<IntV(counts[k][2])>> \o counts[k][1]] ELSE <<>>
              /\ UNCHANGED <<stop, out, leafcalls, mon, nw, seen, counts, sortbuf, pc>>
         [] fphase = 3 ->
              IF fq = <<>> THEN /\ fphase' = 4 /\ UNCHANGED <<fq, stop, out, leafcalls, mon, nw, seen, counts, sortbuf, pc>>
              ELSE LET s2 == PushTop(fq[1], ChainState) IN
                   /\ SetChain(s2)
                   /\ fq' = IF s2.ok THEN Tail(fq) ELSE <<>>
                   /\ UNCHANGED <<fphase, stop, pc>>
         [] OTHER ->        \* the leaf writer's finish
              /\ mon' = MStep(mon, "finish", TRUE)
              /\ pc' = "done"
              /\ UNCHANGED <<fphase, fq, stop, out, leafcalls, nw, seen, counts, sortbuf>>
    /\ UNCHANGED <<q, A, B, hasHdr, breakAt, bi, maxlenB, nr, nu, pulled, matches, cands, candkey, uset, aggst, aggcols, aggkeys, hdr, hdrset, err>>

Next == GrowA \/ DoneA \/ GrowB \/ ChooseQ \/ Parse \/ BuildB \/ SetHeader \/ RunInit \/ Pull \/ StartRecord \/ Match \/ Feed \/ Finish
Spec == Init /\ [][Next]_vars

--------------------------------------------------------------------------
(* theorems *)

Running == pc \notin {"setupA", "setupB"}
Terminal0 == pc \in {"done", "error"}

ErrMatches(e, r) == \/ (e = NoErr /\ r = NoErr)
                    \/ (e # NoErr /\ r # NoErr /\ e[1].cls = r[1].cls /\ (r[1].nr = -1 \/ e[1].nr = -1 \/ (e[1].nr = r[1].nr /\ e[1].fld = r[1].fld)))

\* values equal up to ANY_VALUE's freedom (the machine returns the first value of the group)
CellOk(m, r) == IF r[1] = "any" THEN Member(r[2], m) \/ (m[1] = "any") ELSE m = r
RowOk(m, r)  == Len(m) = Len(r) /\ \A c \in 1..Len(r) : CellOk(m[c], r[c])
OutOk(m, r)  == Len(m) = Len(r) /\ \A k \in 1..Len(r) : RowOk(m[k], r[k])

\* C01..C05: the machine ends in the state the relational meaning prescribes
Correct == (pc = "done" /\ ~(breakAt # 0 /\ Ref.err # NoErr)) => /\ Ref.err = NoErr
                                                               /\ OutOk(out, RefOut)
ErrCorrect == pc = "error" => (breakAt # 0 \/ ErrMatches(err, Ref.err))
NoSpuriousSuccess == (pc = "done" /\ breakAt = 0) => Ref.err = NoErr

\* streamed output is always a prefix of the final result (C01, C02, C15: "a prefix of the full output").
\* out only ever grows by appending (OutGrows), so it suffices to evaluate the prefix relation in terminal states.
StreamPrefix == (Terminal0 /\ Ref.err = NoErr /\ ~Aggregated(q)) => (Len(out) <= Len(Ref.out) /\ OutOk(out, SubSeq(Ref.out, 1, Len(out))))
OutGrows == [][Len(out') >= Len(out) /\ SubSeq(out', 1, Len(out)) = out /\ pulled' >= pulled]_vars

\* C02: a bounded query that needs no buffering stops pulling input (pulled is monotone: terminal states suffice)
PullBound == (Terminal0 /\ Streaming(q) /\ breakAt = 0) => pulled <= PullLimit

\* C15: writer protocol; finish exactly once after a successful run; nothing after a refusal
Protocol == /\ ~mon.bad
            /\ (pc = "done" => mon.fin = 1)
            /\ (pc = "error" => mon.fin = 0)
\* C15: after the leaf refused, no further input is pulled in streaming shapes
Prompt == [][(stop /\ pc \in {"loop", "match", "feed", "rec"}) => pulled' = pulled]_vars

\* C06: sources never change once the query runs
SourcesUnchanged == [][Running => (A' = A /\ B' = B)]_vars

\* C07: header width = record width for select lists of fixed width
\* star forms have a fixed width only over rectangular tables (and a non-empty join table: the null partner of a
\* LEFT JOIN is as wide as the widest B record, i.e. empty when B is empty -- observation I7 in DESIGN 6)
Rectangular == (\A i \in 1..Len(A) : Len(A[i]) = WidthA) /\ (\A j \in 1..Len(B) : Len(B[j]) = WidthB) /\ (q.join = "none" \/ B # <<>>)
FixedWidth == IF q.kind = "update" \/ q.hasexc THEN (\A i \in 1..Len(A) : Len(A[i]) = WidthA)
              ELSE (~HasStar(q.items) \/ Rectangular)
HeaderWidth == (pc = "done" /\ hdrset /\ FixedWidth) => \A k \in 1..Len(out) : Len(out[k]) = Len(hdr)

\* the sort operator meets the wording of C02: permutation, non-decreasing, ties in emission order
SortSpec == (pc = "finish" /\ fphase = 1 /\ Sorted(q) /\ ~q.desc /\ ~Aggregated(q)) =>
            LET s == SortStable(sortbuf) IN
            /\ Len(s) = Len(sortbuf)
            /\ \A k \in 1..(Len(s) - 1) : ~KeyLess(s[k + 1].key, s[k].key)
            /\ \A k \in 1..Len(sortbuf) : CountIn(s, sortbuf[k]) = CountIn(sortbuf, sortbuf[k])

Terminal == pc \in {"done", "error"}

\* C02, termination on unbounded input: with a cyclic (endless) iterator a bounded streaming query still finishes.
\* Checked under weak fairness; no state constraint (a constraint would hide the non-progress cycle).
FairSpec == Init /\ [][Next]_vars /\ WF_vars(Next)
Terminates == <>(pc \in {"done", "error"})

WarnRagged(T) == IF T = <<>> THEN <<>> ELSE
                 LET bad == {k \in 1..Len(T) : Len(T[k]) # Len(T[1])} IN
                 IF bad = {} THEN <<>> ELSE LET k == CHOOSE k \in bad : \A m \in bad : k <= m IN <<1, Len(T[1]), k, Len(T[k])>>

\* what a text back-end (CSV file, command line, sqlite->csv) shows for a typed value (C13): ints in decimal, None as empty
RECURSIVE DigitsOf(_)
DigitsOf(n) == IF n < 10 THEN <<48 + n>> ELSE DigitsOf(n \div 10) \o <<48 + (n % 10)>>
StrOf(v) == CASE v[1] = "s" -> v[2]
              [] v[1] = "n" -> <<>>
              [] v[1] = "i" -> (IF v[2] < 0 THEN <<45>> \o DigitsOf(0 - v[2]) ELSE DigitsOf(v[2]))
              [] OTHER -> <<63>>
Stringify(rows) == [k \in 1..Len(rows) |-> [c \in 1..Len(rows[k]) |-> StrOf(rows[k][c])]]
TextOnly(rows) == \A k \in 1..Len(rows) : \A c \in 1..Len(rows[k]) : rows[k][c][1] \in {"s", "n", "i"}
HasNoneCell(rows) == \E k \in 1..Len(rows) : \E c \in 1..Len(rows[k]) : rows[k][c] = None

CaseOf == [q |-> q, A |-> A, B |-> B, hasHdr |-> hasHdr, breakAt |-> breakAt,
           hdrA |-> HdrA, hdrB |-> HdrB,
           expect |-> [out |-> IF Ref.err = NoErr THEN RefOut ELSE <<>>, err |-> Ref.err,
                       hashdr |-> (Ref.err = NoErr /\ HeaderRef.has), hdr |-> HeaderRef.names,
                       outs |-> IF Ref.err = NoErr /\ TextOnly(RefOut) THEN Stringify(RefOut) ELSE <<>>,
                       textonly |-> (Ref.err = NoErr /\ TextOnly(RefOut)), nonewarn |-> (Ref.err = NoErr /\ HasNoneCell(RefOut)),
                       pulllimit |-> PullLimit, streaming |-> Streaming(q),
                       alt |-> RefAlt, raggedA |-> WarnRagged(A), raggedB |-> WarnRagged(B), fullscan |-> (pc = "done" /\ pulled = Len(A) + 1)]]

Emit == (Terminal /\ EmitCases) => PrintT(ToJson(CaseOf))
=============================================================================
