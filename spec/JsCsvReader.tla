---------------------------- MODULE JsCsvReader ----------------------------
(***************************************************************************)
(* The Node.js streaming CSV reader (rbql-js/rbql_csv.js CSVRecordIterator *)
(* in stream mode), C20 / C18.                                             *)
(*                                                                         *)
(* A producer / consumer machine.  Producer steps: OnData(n) -- the next n *)
(* bytes arrive as one chunk (any n: the partition is chosen step by       *)
(* step), OnEnd.  Consumer step: GetRecord -- the consumer asks for the    *)
(* next record (a pending promise).  The two interleave freely.  State     *)
(* carried between chunks: the bytes of an incomplete UTF-8 sequence       *)
(* (streaming decoder), the partially decoded line, whether the previous   *)
(* chunk ended in CR, the multi-line (quoted_rfc) record aggregator, the   *)
(* queue of produced records, a stored exception.                          *)
(*                                                                         *)
(* Theorem (TLC): for every byte string within the bound, every partition  *)
(* and every producer/consumer interleaving, the consumer receives exactly *)
(* RefRead(Decode(bytes)) -- records, warnings -- or an error when RefRead *)
(* says so; valid UTF-8 is never rejected.                                 *)
(* Mutant "nonstreaming_decoder": each chunk decoded on its own (D6).      *)
(***************************************************************************)
EXTENDS CsvText, Utf8Ops, TLC, Json

CONSTANTS ByteAlphabet, MaxBytes,
          Policies, CommentChars, DlmA,
          EmitCases, MUT

Dlm == <<DlmA>>

VARIABLES bytes, policy, cmt,
          pc, pos, dpend, partial, endsCR, agg,     \* producer side
          queue, waiting, got, outcome,             \* consumer side
          NL, NR, bom, firstdef, exc, exhausted, decfail

vars == <<bytes, policy, cmt, pc, pos, dpend, partial, endsCR, agg, queue, waiting, got, outcome, NL, NR, bom, firstdef, exc, exhausted, decfail>>

NoExc == [set |-> FALSE, nr |-> 0, nl |-> 0]

Init == /\ bytes = <<>> /\ policy = "simple" /\ cmt = 0 /\ pc = "setup"
        /\ pos = 1 /\ dpend = <<>> /\ partial = <<>> /\ endsCR = FALSE /\ agg = <<>>
        /\ queue = <<>> /\ waiting = FALSE /\ got = <<>> /\ outcome = ""
        /\ NL = 0 /\ NR = 0 /\ bom = FALSE /\ firstdef = 0 /\ exc = NoExc /\ exhausted = FALSE /\ decfail = FALSE

Grow == /\ pc = "setup" /\ Len(bytes) < MaxBytes
        /\ \E b \in ByteAlphabet : bytes' = Append(bytes, b)
        /\ UNCHANGED <<policy, cmt, pc, pos, dpend, partial, endsCR, agg, queue, waiting, got, outcome, NL, NR, bom, firstdef, exc, exhausted, decfail>>
Start == /\ pc = "setup"
         /\ \E p \in Policies, c \in CommentChars : policy' = p /\ cmt' = c
         /\ pc' = "run"
         /\ UNCHANGED <<bytes, pos, dpend, partial, endsCR, agg, queue, waiting, got, outcome, NL, NR, bom, firstdef, exc, exhausted, decfail>>

--------------------------------------------------------------------------
(* the shared state threaded through line processing: st = [agg, queue, waiting, got, outcome, NL, NR, bom, firstdef, exc] *)

St == [agg |-> agg, queue |-> queue, waiting |-> waiting, got |-> got, outcome |-> outcome,
       NL |-> NL, NR |-> NR, bom |-> bom, firstdef |-> firstdef, exc |-> exc, exhausted |-> exhausted]
SetSt(s) == /\ agg' = s.agg /\ queue' = s.queue /\ waiting' = s.waiting /\ got' = s.got /\ outcome' = s.outcome
            /\ NL' = s.NL /\ NR' = s.NR /\ bom' = s.bom /\ firstdef' = s.firstdef /\ exc' = s.exc /\ exhausted' = s.exhausted

\* try_resolve_next_record: a stored exception rejects the waiting consumer; otherwise hand over the next record, or null at the end
TryResolve(s) ==
    IF ~s.waiting \/ s.outcome # "" THEN s
    ELSE IF s.exc.set THEN [s EXCEPT !.waiting = FALSE, !.outcome = "error"]
    ELSE IF s.queue # <<>> THEN [s EXCEPT !.waiting = FALSE, !.got = Append(@, s.queue[1]), !.queue = Tail(@)]
    ELSE IF s.exhausted THEN [s EXCEPT !.waiting = FALSE, !.outcome = "done"]
    ELSE s

\* process_record_line: split, count, warn, enqueue, try to resolve
RecordLine(s, row) ==
    LET sp  == RefSplit(row, Dlm, SplitPolicy(policy))
        nr  == s.NR + 1
        bad == sp.warn /\ s.firstdef = 0
        s1  == [s EXCEPT !.NR = nr,
                         !.firstdef = IF bad THEN s.NL ELSE @,
                         !.exc = IF bad /\ policy = "quoted_rfc" /\ ~s.exc.set THEN [set |-> TRUE, nr |-> nr, nl |-> s.NL] ELSE @,
                         !.queue = Append(@, sp.fields)]
    IN TryResolve(IF bad /\ policy = "quoted_rfc" THEN TryResolve([s1 EXCEPT !.queue = s.queue]) \* the exception is stored (and propagated) first ...
                                                        ELSE s1)

\* ... the implementation still enqueues the malformed record after storing the exception; what the consumer can observe is the
\* rejection, so the queue content behind a stored exception is not modelled further.

\* process_line: count, strip BOM on line 1, then the policy's line handler
ProcessLine(s, l0) ==
    LET nl == s.NL + 1
        l  == IF nl = 1 THEN StripBomLine(l0, "utf-8") ELSE l0
        s0 == [s EXCEPT !.NL = nl, !.bom = @ \/ (nl = 1 /\ l # l0)]
    IN IF policy # "quoted_rfc"
       THEN IF IsComment(l, cmt) THEN s0 ELSE RecordLine(s0, l)
       ELSE \* MultilineRecordAggregator
            IF s0.agg = <<>> /\ IsComment(l, cmt) THEN s0
            ELSE LET buf == Append(s0.agg, l)
                     full == (~OddQ(l) /\ Len(buf) = 1) \/ (OddQ(l) /\ Len(buf) > 1)
                 IN IF full THEN RecordLine([s0 EXCEPT !.agg = <<>>], JoinBy(buf, <<LF>>)) ELSE [s0 EXCEPT !.agg = buf]

RECURSIVE ProcessLines(_, _)
ProcessLines(s, ls) == IF ls = <<>> THEN s ELSE ProcessLines(ProcessLine(s, ls[1]), Tail(ls))

\* split_lines(text): split at CRLF | CR | LF; always at least one (possibly empty) piece
RECURSIVE SplitLines(_)
SplitLines(t) == LET k == FirstNL(t, 1) IN
                 IF k = 0 THEN <<t>>
                 ELSE LET skip == IF t[k] = CR /\ k + 1 <= Len(t) /\ t[k + 1] = LF THEN 2 ELSE 1 IN
                      << SubSeq(t, 1, k - 1) >> \o SplitLines(SubSeq(t, k + skip, Len(t)))

--------------------------------------------------------------------------
(* producer *)

OnData ==
    /\ pc = "run" /\ pos <= Len(bytes) /\ ~decfail
    /\ \E n \in 1..(Len(bytes) - pos + 1) :
         LET chunk == SubSeq(bytes, pos, pos + n - 1)
             d == Consume(chunk, IF MUT = "nonstreaming_decoder" THEN <<>> ELSE dpend, <<>>)
             bad == ~d.ok \/ (MUT = "nonstreaming_decoder" /\ d.pending # <<>>)
         IN /\ pos' = pos + n
            /\ IF bad
               THEN \* decoding error: stored as an exception, the chunk is dropped
                    /\ decfail' = TRUE
                    /\ SetSt(TryResolve([St EXCEPT !.exc = IF St.exc.set THEN @ ELSE [set |-> TRUE, nr |-> 0, nl |-> 0]]))
                    /\ UNCHANGED <<dpend, partial, endsCR>>
               ELSE LET text  == d.chars
                        skip1 == text # <<>> /\ text[1] = LF /\ endsCR                 \* LF completing a CRLF split across chunks
                        lines == SplitLines(text)
                        first == partial \o lines[1]
                        all   == <<first>> \o Tail(lines)
                        todo  == SubSeq(all, IF skip1 THEN 2 ELSE 1, Len(all) - 1)
                    IN /\ dpend' = d.pending
                       /\ partial' = all[Len(all)]
                       /\ endsCR' = (text # <<>> /\ text[Len(text)] = CR)
                       /\ SetSt(ProcessLines(St, todo))
                       /\ UNCHANGED decfail
    /\ UNCHANGED <<bytes, policy, cmt, pc>>

OnEnd ==
    /\ pc = "run" /\ pos = Len(bytes) + 1 /\ ~exhausted
    /\ LET s0 == [St EXCEPT !.exhausted = TRUE]
           \* a sequence still pending in the decoder at the end of input is a decoding error
           s1 == IF dpend # <<>> /\ ~decfail THEN [s0 EXCEPT !.exc = IF s0.exc.set THEN @ ELSE [set |-> TRUE, nr |-> 0, nl |-> 0]] ELSE s0
           s2 == IF partial # <<>> /\ ~decfail /\ dpend = <<>> THEN ProcessLine(s1, partial) ELSE s1
           s3 == IF s2.agg # <<>> THEN RecordLine([s2 EXCEPT !.agg = <<>>], JoinBy(s2.agg, <<LF>>)) ELSE s2
       IN /\ SetSt(TryResolve(s3))
          /\ decfail' = (decfail \/ dpend # <<>>)
    /\ partial' = <<>>
    /\ UNCHANGED <<bytes, policy, cmt, pc, pos, dpend, endsCR>>

\* consumer: get_record() -- a new pending promise, resolved at once if something is available
GetRecord ==
    /\ pc = "run" /\ ~waiting /\ outcome = ""
    /\ SetSt(TryResolve([St EXCEPT !.waiting = TRUE]))
    /\ UNCHANGED <<bytes, policy, cmt, pc, pos, dpend, partial, endsCR, decfail>>

Next == Grow \/ Start \/ OnData \/ OnEnd \/ GetRecord
Spec == Init /\ [][Next]_vars

--------------------------------------------------------------------------
(* theorems *)

Finished == outcome # ""
Ref == RefRead(Decode(bytes).chars, Dlm, policy, cmt, "utf-8")

\* C20: chunk- and interleaving-independence
ChunkIndependent ==
    Finished =>
      IF ~Valid(bytes) THEN outcome = "error"
      ELSE IF Ref.err THEN outcome = "error" /\ exc.nr = Ref.errnr /\ exc.nl = Ref.errnl
      ELSE /\ outcome = "done"
           /\ got = Ref.recs
           /\ bom = Ref.bom /\ firstdef = Ref.firstdef
\* valid UTF-8 is never rejected as undecodable
NeverRejectsValid == (Valid(bytes) /\ pc = "run") => ~decfail

JCase == [bytes |-> bytes, policy |-> policy, cmt |-> cmt, valid |-> Valid(bytes),
          ref |-> IF Valid(bytes) THEN Ref ELSE RefRead(<<>>, Dlm, policy, cmt, "utf-8")]
\* one case per (bytes, policy, cmt): printed when the machine first reaches the run state
Emit == (pc = "run" /\ pos = 1 /\ ~waiting /\ got = <<>> /\ outcome = "" /\ ~exhausted /\ EmitCases) => PrintT(ToJson(JCase))
=============================================================================
