----------------------------- MODULE RbqlValues -----------------------------
(***************************************************************************)
(* Values and the language-neutral expression vocabulary of the RBQL       *)
(* engine specification (DESIGN 3.1).                                      *)
(*                                                                         *)
(* TLC's equality is typed, so every value is a tuple led by a tag:        *)
(*   <<"s", chars>>  string (chars = Seq(Int) of code points)              *)
(*   <<"n">>         None / null                                           *)
(*   <<"i", k>>      integer                                               *)
(*   <<"b", t>>      boolean                                               *)
(*   <<"q", n, d>>   rational n/d in lowest terms, d > 0 (a float result)  *)
(*   <<"l", vs>>     list of values                                        *)
(*   <<"ERR">>       evaluation raised an exception                        *)
(* Expressions are tagged tuples as well; the harness renders them into    *)
(* Python and JavaScript syntax with a table (no evaluation there).        *)
(***************************************************************************)
EXTENDS Naturals, Integers, Sequences, TLC

None    == <<"n">>
Str(cs) == <<"s", cs>>
IntV(k)  == <<"i", k>>
Bool(t) == <<"b", t>>
Lst(vs) == <<"l", vs>>
Err     == <<"ERR">>

Tag(v)   == v[1]
IsErr(v) == v[1] = "ERR"

\* equality that never compares payloads of different types
VEq(x, y) == x[1] = y[1] /\ x = y

RECURSIVE SeqLess(_, _)
SeqLess(a, b) == IF a = <<>> THEN b # <<>>
                 ELSE IF b = <<>> THEN FALSE
                 ELSE IF a[1] < b[1] THEN TRUE
                 ELSE IF a[1] > b[1] THEN FALSE
                 ELSE SeqLess(Tail(a), Tail(b))

\* rationals
RECURSIVE Gcd(_, _)
Gcd(a, b) == IF b = 0 THEN a ELSE Gcd(b, a % b)
Abs(x) == IF x < 0 THEN -x ELSE x
Rat(n, d) == LET g == Gcd(Abs(n), Abs(d))
                 s == IF d < 0 THEN -1 ELSE 1
             IN <<"q", (s * n) \div g, (s * d) \div g>>
Num(v) == IF v[1] = "i" THEN v[2] ELSE v[2]          \* numerator
Den(v) == IF v[1] = "i" THEN 1 ELSE v[3]
IsNum(v) == v[1] \in {"i", "q"}
\* a number in canonical form: integers stay <<"i", k>>
Canon(n, d) == LET r == Rat(n, d) IN IF r[3] = 1 THEN IntV(r[2]) ELSE r
NAdd(x, y) == Canon(Num(x) * Den(y) + Num(y) * Den(x), Den(x) * Den(y))
NSub(x, y) == Canon(Num(x) * Den(y) - Num(y) * Den(x), Den(x) * Den(y))
NMul(x, y) == Canon(Num(x) * Num(y), Den(x) * Den(y))
NDivInt(x, k) == Canon(Num(x), Den(x) * k)
NLess(x, y) == Num(x) * Den(y) < Num(y) * Den(x)
NEq(x, y)   == Num(x) * Den(y) = Num(y) * Den(x)

\* the order Python / JavaScript put on two values of the same kind; other combinations raise (Python) and are not generated
Comparable(v, w) == (v[1] = "s" /\ w[1] = "s") \/ (IsNum(v) /\ IsNum(w))
VLess(v, w) == IF v[1] = "s" /\ w[1] = "s" THEN SeqLess(v[2], w[2]) ELSE IF IsNum(v) /\ IsNum(w) THEN NLess(v, w) ELSE FALSE

\* order on key tuples (ORDER BY keys, GROUP BY keys): lexicographic
RECURSIVE KeyLess(_, _)
KeyLess(k1, k2) == IF k1 = <<>> THEN k2 # <<>>
                   ELSE IF k2 = <<>> THEN FALSE
                   ELSE IF VLess(k1[1], k2[1]) THEN TRUE
                   ELSE IF VLess(k2[1], k1[1]) THEN FALSE
                   ELSE KeyLess(Tail(k1), Tail(k2))

Truthy(v) == CASE v[1] = "b" -> v[2]
               [] v[1] = "s" -> v[2] # <<>>
               [] v[1] = "n" -> FALSE
               [] v[1] = "i" -> v[2] # 0
               [] v[1] = "l" -> v[2] # <<>>
               [] OTHER -> TRUE

--------------------------------------------------------------------------
(* numeric strings: what int() / float() (Python) and parseFloat (JS) make of a cell *)

Digit(c) == c >= 48 /\ c <= 57
RECURSIVE DigitsVal(_, _)
DigitsVal(cs, acc) == IF cs = <<>> THEN acc ELSE DigitsVal(Tail(cs), acc * 10 + (cs[1] - 48))
AllDigits(cs) == cs # <<>> /\ \A k \in 1..Len(cs) : Digit(cs[k])
RECURSIVE Pow10(_)
Pow10(n) == IF n = 0 THEN 1 ELSE 10 * Pow10(n - 1)
DotPos(cs) == IF \E k \in 1..Len(cs) : cs[k] = 46 THEN CHOOSE k \in 1..Len(cs) : cs[k] = 46 /\ \A j \in 1..(k - 1) : cs[j] # 46 ELSE 0

\* "12" -> <<"i",12>>, "1.5" -> <<"q",3,2>>, "-2" -> <<"i",-2>>, anything else -> Err  (plain decimal notation only: that is what is generated)
ParseUnsigned(cs) == IF AllDigits(cs) THEN IntV(DigitsVal(cs, 0))
                     ELSE LET p == DotPos(cs) IN
                          IF p > 1 /\ p < Len(cs) /\ AllDigits(SubSeq(cs, 1, p - 1)) /\ AllDigits(SubSeq(cs, p + 1, Len(cs)))
                          THEN Canon(DigitsVal(SubSeq(cs, 1, p - 1) \o SubSeq(cs, p + 1, Len(cs)), 0), Pow10(Len(cs) - p))
                          ELSE Err
ParseNum(cs) == IF Len(cs) >= 2 /\ cs[1] = 45
                THEN LET u == ParseUnsigned(Tail(cs)) IN IF IsErr(u) THEN Err ELSE NSub(IntV(0), u)
                ELSE ParseUnsigned(cs)

\* an aggregate's numeric view of its argument: numbers stay, strings are parsed
ToNum(v) == IF IsNum(v) THEN v ELSE IF v[1] = "s" THEN ParseNum(v[2]) ELSE Err

--------------------------------------------------------------------------
(* expressions *)

\* env: [a, b : Seq(value), hasb : BOOLEAN, nr, bnr, bnf, nu : Int]
FieldOf(rec, i) == IF i <= Len(rec) THEN rec[i] ELSE None

RECURSIVE Eval(_, _)
Eval(e, env) ==
    CASE e[1] = "fld" -> IF e[2] = "a" THEN FieldOf(env.a, e[3])
                         ELSE IF env.hasb THEN FieldOf(env.b, e[3]) ELSE None
      [] e[1] = "lit" -> Str(e[2])
      [] e[1] = "int" -> IntV(e[2])
      [] e[1] = "NR"  -> IntV(env.nr)
      [] e[1] = "NF"  -> IntV(Len(env.a))
      [] e[1] = "bNR" -> IF env.hasb THEN IntV(env.bnr) ELSE None
      [] e[1] = "bNF" -> IntV(env.bnf)
      [] e[1] = "NU"  -> IntV(env.nu)
      [] e[1] = "cat" -> LET x == Eval(e[2], env) y == Eval(e[3], env) IN
                         IF IsErr(x) \/ IsErr(y) THEN Err
                         ELSE IF x[1] = "s" /\ y[1] = "s" THEN Str(x[2] \o y[2]) ELSE Err      \* None + str raises
      [] e[1] = "add" -> LET x == Eval(e[2], env) y == Eval(e[3], env) IN
                         IF IsErr(x) \/ IsErr(y) THEN Err
                         ELSE IF IsNum(x) /\ IsNum(y) THEN NAdd(x, y) ELSE Err
      [] e[1] = "mul" -> LET x == Eval(e[2], env) y == Eval(e[3], env) IN
                         IF IsErr(x) \/ IsErr(y) THEN Err
                         ELSE IF IsNum(x) /\ IsNum(y) THEN NMul(x, y) ELSE Err
      [] e[1] = "num" -> LET x == Eval(e[2], env) IN                                          \* int(x)
                         IF IsErr(x) THEN Err ELSE IF x[1] = "s" /\ AllDigits(x[2]) THEN ParseNum(x[2]) ELSE Err
      [] e[1] = "eq"  -> LET x == Eval(e[2], env) y == Eval(e[3], env) IN
                         IF IsErr(x) \/ IsErr(y) THEN Err ELSE Bool(VEq(x, y))
      [] e[1] = "ne"  -> LET x == Eval(e[2], env) y == Eval(e[3], env) IN
                         IF IsErr(x) \/ IsErr(y) THEN Err ELSE Bool(~VEq(x, y))
      [] e[1] = "lt"  -> LET x == Eval(e[2], env) y == Eval(e[3], env) IN
                         IF IsErr(x) \/ IsErr(y) THEN Err
                         ELSE IF Comparable(x, y) THEN Bool(VLess(x, y)) ELSE Err               \* None < str raises
      [] e[1] = "isnone" -> LET x == Eval(e[2], env) IN IF IsErr(x) THEN Err ELSE Bool(x = None)
      [] e[1] = "not" -> LET x == Eval(e[2], env) IN IF IsErr(x) THEN Err ELSE Bool(~Truthy(x))
      [] e[1] = "and" -> LET x == Eval(e[2], env) IN
                         IF IsErr(x) THEN Err ELSE IF ~Truthy(x) THEN x ELSE Eval(e[3], env)     \* the operand, not a boolean (both hosts)
      [] e[1] = "or"  -> LET x == Eval(e[2], env) IN                                          \* x or y: the value of x if truthy, else the value of y
                         IF IsErr(x) THEN Err ELSE IF Truthy(x) THEN x ELSE Eval(e[3], env)
      [] e[1] = "nrodd" -> Bool(env.nr % 2 = 1)
      [] e[1] = "true" -> Bool(TRUE)
      [] e[1] = "bmin" -> LET x == Eval(e[2], env) y == Eval(e[3], env) IN                       \* Python builtin min(x, y)
                          IF IsErr(x) \/ IsErr(y) THEN Err ELSE IF Comparable(x, y) THEN (IF VLess(y, x) THEN y ELSE x) ELSE Err
      [] e[1] = "bmax" -> LET x == Eval(e[2], env) y == Eval(e[3], env) IN                       \* Python builtin max(x, y)
                          IF IsErr(x) \/ IsErr(y) THEN Err ELSE IF Comparable(x, y) THEN (IF VLess(x, y) THEN y ELSE x) ELSE Err
      [] e[1] = "bmaxl" -> LET x == Eval(e[2], env) y == Eval(e[3], env) IN                      \* max([x, y]): an iterable argument
                          IF IsErr(x) \/ IsErr(y) THEN Err ELSE IF Comparable(x, y) THEN (IF VLess(x, y) THEN y ELSE x) ELSE Err
      [] e[1] = "bsum" -> LET x == Eval(e[2], env) y == Eval(e[3], env) IN                       \* sum([x, y])
                          IF IsErr(x) \/ IsErr(y) THEN Err ELSE IF IsNum(x) /\ IsNum(y) THEN NAdd(x, y) ELSE Err
      [] e[1] = "idx0" -> LET x == Eval(e[2], env) y == Eval(e[3], env) IN                      \* [x, y][0]: nested brackets and a comma inside one select item
                          IF IsErr(x) \/ IsErr(y) THEN Err ELSE x
      [] e[1] = "dsub" -> LET x == Eval(e[2], env) y == Eval(e[3], env) IN                      \* {"k": x, "m": y}["k"]: braces with a top-level comma inside one select item
                          IF IsErr(x) \/ IsErr(y) THEN Err ELSE x
      [] e[1] = "udf" -> LET x == Eval(e[2], env) IN                                          \* udf(x) = x + "u", defined by the user's init code
                         IF IsErr(x) THEN Err ELSE IF x[1] = "s" THEN Str(x[2] \o <<117>>) ELSE Err
      [] e[1] = "poison" -> LET x == Eval(e[2], env) IN                                        \* raises iff the value is the poison string e[3]
                            IF IsErr(x) THEN Err ELSE IF x[1] = "s" /\ x[2] = e[3] THEN Err ELSE x
      [] OTHER -> Err

\* list expressions (UNNEST arguments)
RECURSIVE EvalFlds(_, _)
EvalFlds(idx, env) == IF idx = <<>> THEN <<>> ELSE <<FieldOf(env.a, idx[1])>> \o EvalFlds(Tail(idx), env)
EvalList(le, env) ==
    CASE le[1] = "flds"  -> Lst(EvalFlds(le[2], env))                                          \* [a_i, a_j, ..]
      [] le[1] = "rep"   -> LET x == Eval(le[2], env) IN                                       \* [e] * (NF - 1)
                            IF IsErr(x) THEN Err ELSE Lst([k \in 1..(IF Len(env.a) > 0 THEN Len(env.a) - 1 ELSE 0) |-> x])
      [] le[1] = "lits"  -> Lst([k \in 1..Len(le[2]) |-> Str(le[2][k])])                          \* a list of string literals
      [] le[1] = "empty" -> Lst(<<>>)
      [] OTHER -> Err

--------------------------------------------------------------------------
(* sequences *)

RECURSIVE Flatten(_)
Flatten(ss) == IF ss = <<>> THEN <<>> ELSE ss[1] \o Flatten(Tail(ss))

Take(n, s) == IF n >= Len(s) THEN s ELSE SubSeq(s, 1, n)

RECURSIVE Reverse(_)
Reverse(s) == IF s = <<>> THEN <<>> ELSE Reverse(Tail(s)) \o <<s[1]>>

Member(s, x) == \E k \in 1..Len(s) : s[k] = x

\* first occurrences, in order
RECURSIVE DedupFrom(_, _)
DedupFrom(s, seen) == IF s = <<>> THEN <<>>
                      ELSE IF Member(seen, s[1]) THEN DedupFrom(Tail(s), seen)
                      ELSE <<s[1]>> \o DedupFrom(Tail(s), Append(seen, s[1]))
Dedup(s) == DedupFrom(s, <<>>)

=============================================================================
