------------------------------- MODULE CsvText -------------------------------
(***************************************************************************)
(* What a CSV text means (C12, C10): RefRead(text, dlm, policy, cmt, enc)   *)
(* -- lines end at LF, CR or CRLF; a final line without terminator is      *)
(* still a record; comment lines are skipped; a leading BOM is dropped     *)
(* with a warning; a quoted_rfc record continues over physical lines until *)
(* its quotes balance.  No constants, no state: CsvReader.tla is the       *)
(* streaming reader as a machine, CsvCodec.tla the writer.                 *)
(***************************************************************************)
EXTENDS CsvDialect

LF   == 10
CR   == 13
BOMC == 65279

--------------------------------------------------------------------------
(* declarative meaning of a CSV text *)

IsNL(c) == c = LF \/ c = CR

RECURSIVE FirstNL(_, _)
FirstNL(t, p) == IF p > Len(t) THEN 0 ELSE IF IsNL(t[p]) THEN p ELSE FirstNL(t, p + 1)

RECURSIVE LinesOf(_)
LinesOf(t) == IF t = <<>> THEN <<>>
              ELSE LET k == FirstNL(t, 1) IN
                   IF k = 0 THEN <<t>>
                   ELSE LET skip == IF t[k] = CR /\ k + 1 <= Len(t) /\ t[k + 1] = LF THEN 2 ELSE 1 IN
                        << SubSeq(t, 1, k - 1) >> \o LinesOf(SubSeq(t, k + skip, Len(t)))

RECURSIVE CountQ(_)
CountQ(s) == IF s = <<>> THEN 0 ELSE (IF s[1] = Q THEN 1 ELSE 0) + CountQ(Tail(s))
OddQ(s) == CountQ(s) % 2 = 1

\* cmt = 0: no comment prefix; otherwise the (single character) prefix
IsComment(l, cmt) == cmt # 0 /\ l # <<>> /\ l[1] = cmt

StripBomLine(l, enc) ==
    IF enc = "utf-8" /\ Len(l) >= 1 /\ l[1] = BOMC THEN Tail(l)
    ELSE IF enc = "latin-1" /\ Len(l) >= 3 /\ l[1] = 239 /\ l[2] = 187 /\ l[3] = 191 THEN SubSeq(l, 4, Len(l))
    ELSE l

\* first j > i whose line has an odd number of quotes, Len(L) if none (EOF closes the record)
RECURSIVE ClosingLine(_, _)
ClosingLine(L, j) == IF j >= Len(L) THEN Len(L) ELSE IF OddQ(L[j]) THEN j ELSE ClosingLine(L, j + 1)

\* logical rows: [row, nl = number of the last physical line of the row, cm = comment line]
RECURSIVE Rows(_, _, _, _)
Rows(L, i, cmt, rfc) ==
    IF i > Len(L) THEN <<>>
    ELSE IF IsComment(L[i], cmt) THEN << [row |-> L[i], nl |-> i, cm |-> TRUE] >> \o Rows(L, i + 1, cmt, rfc)
    ELSE IF ~rfc \/ ~OddQ(L[i]) THEN << [row |-> L[i], nl |-> i, cm |-> FALSE] >> \o Rows(L, i + 1, cmt, rfc)
    ELSE IF i = Len(L) THEN << [row |-> L[i], nl |-> i, cm |-> FALSE] >>
    ELSE LET j == ClosingLine(L, i + 1) IN
         << [row |-> JoinBy(SubSeq(L, i, j), <<LF>>), nl |-> j, cm |-> FALSE] >> \o Rows(L, j + 1, cmt, rfc)

SplitPolicy(policy) == IF policy = "quoted_rfc" THEN "quoted" ELSE policy

\* fold the rows into records; stop at the first malformed record under quoted_rfc
RECURSIVE ReadRows(_, _, _, _, _)
ReadRows(R, k, dlm, policy, acc) ==
    IF k > Len(R) \/ acc.err THEN acc
    ELSE IF R[k].cm THEN ReadRows(R, k + 1, dlm, policy, acc)
    ELSE LET sp  == RefSplit(R[k].row, dlm, SplitPolicy(policy))
             nr  == Len(acc.recs) + 1
             fd  == IF sp.warn /\ acc.firstdef = 0 THEN R[k].nl ELSE acc.firstdef
             bad == sp.warn /\ acc.firstdef = 0 /\ policy = "quoted_rfc"
         IN ReadRows(R, k + 1, dlm, policy,
                     IF bad THEN [acc EXCEPT !.err = TRUE, !.firstdef = fd, !.errnr = nr, !.errnl = R[k].nl]
                     ELSE [acc EXCEPT !.recs = Append(@, sp.fields), !.firstdef = fd])

\* the field-count warning cites the first record and the first record of a different length
RECURSIVE FirstOther(_, _, _)
FirstOther(recs, k, n) == IF k > Len(recs) THEN 0 ELSE IF Len(recs[k]) # n THEN k ELSE FirstOther(recs, k + 1, n)
Ragged(recs) == IF recs = <<>> THEN <<>>
                ELSE LET k == FirstOther(recs, 2, Len(recs[1])) IN
                     IF k = 0 THEN <<>> ELSE <<1, Len(recs[1]), k, Len(recs[k])>>

RefRead(text, dlm, policy, cmt, enc) ==
    LET L0  == LinesOf(text)
        L   == IF L0 = <<>> THEN L0 ELSE <<StripBomLine(L0[1], enc)>> \o Tail(L0)
        bom == L0 # <<>> /\ L[1] # L0[1]
        acc == ReadRows(Rows(L, 1, cmt, policy = "quoted_rfc"), 1, dlm, policy,
                        [recs |-> <<>>, firstdef |-> 0, err |-> FALSE, errnr |-> 0, errnl |-> 0])
    IN [recs |-> acc.recs, bom |-> bom, firstdef |-> acc.firstdef, ragged |-> Ragged(acc.recs),
        err |-> acc.err, errnr |-> acc.errnr, errnl |-> acc.errnl]

=============================================================================
