------------------------------ MODULE Frontends ------------------------------
(***************************************************************************)
(* Front-ends of the engine (DESIGN 3.11): the resource life-cycle of      *)
(* rbql_csv.query_csv (C15: every file opened is closed on every path;     *)
(* C06: sources are opened read-only), the command-line outcome protocol   *)
(* (C13) and the sqlite statement guard (C06).                             *)
(*                                                                         *)
(* Machine: one action per open / close / raising point of query_csv.      *)
(* The fault plan `failAt` names the step that raises.  Monitors           *)
(* (FdStep, CliOk, SqlOk) are deterministic folds shared with              *)
(* FrontendTrace.tla, which judges events recorded from the real code.     *)
(***************************************************************************)
EXTENDS Naturals, Sequences, FiniteSets, TLC

\* ---- file-handle monitor: events <<"open", role, mode>> / <<"close", role>> -----------------------------
F0 == [open |-> {}, bad |-> FALSE, everOpened |-> {}]
FdStep(f, ev) ==
    CASE ev[1] = "open" ->
            [f EXCEPT !.open = @ \cup {ev[2]}, !.everOpened = @ \cup {ev[2]},
                      \* sources are only ever opened for reading, the output only for writing
                      !.bad = @ \/ (ev[2] \in {"in", "join"} /\ ev[3] # "rb") \/ (ev[2] = "out" /\ ev[3] # "wb") \/ (ev[2] \notin {"in", "out", "join"})]
      [] ev[1] = "close" -> [f EXCEPT !.open = @ \ {ev[2]}]
      [] OTHER -> f
RECURSIVE FdFold(_, _, _)
FdFold(f, evs, k) == IF k > Len(evs) THEN f ELSE FdFold(FdStep(f, evs[k]), evs, k + 1)
\* accepted: nothing left open at the end, no forbidden open
FdOk(evs) == LET f == FdFold(F0, evs, 1) IN f.open = {} /\ ~f.bad

\* ---- command-line outcome protocol (C13) -------------------------------------------------------------------
\* run = [exit, stdout_is_table, stderr_kinds (set of line kinds: "warning", "error", "other"), outcome]
CliOk(r) == IF r.outcome = "ok"
            THEN r.exit = 0 /\ r.stdout_is_table /\ r.stderr_kinds \subseteq {"warning"}
            ELSE r.exit # 0 /\ "error" \in r.stderr_kinds

\* ---- sqlite statement guard (C06): identifiers as sequences of character classes --------------------------
SafeIdent(cls) == \A k \in 1..Len(cls) : cls[k] \in {"letter", "digit", "underscore"}
\* what may reach the database: nothing unless the identifier is safe; then exactly one SELECT of that table
SqlOk(identSafe, statements) == IF identSafe THEN \A k \in 1..Len(statements) : statements[k] = "select_star_from_ident" ELSE statements = <<>>

\* ---- join-table lookup (rbql_csv.find_table_path): where a table id of the query text is looked for ------------
\* e = [direct, maindir, index]: does the id exist as a path (after ~ expansion) / relative to the input file's directory /
\* as a key of ~/.rbql_table_names pointing to an existing file;  abs: the id is an absolute path;  hasdir: an input directory is known
ResolveTable(e, abs, hasdir) ==
    IF e.direct THEN "direct"
    ELSE IF hasdir /\ ~abs /\ e.maindir THEN "maindir"
    ELSE IF e.index THEN "index"
    ELSE "none"                                  \* -> IO-handling error "Unable to find join table"

--------------------------------------------------------------------------
(* query_csv as a machine *)

CONSTANTS Steps,      \* the raising points explored: subset of StepNames
          WithJoin,   \* set of BOOLEAN: does the query open a join table?
          MUT

StepNames == {"none", "open_out", "open_in", "validate", "preread", "parse", "open_join", "join_preread", "run", "finish"}

VARIABLES pc, failAt, join, fds, evs, outcome, closeIn, closeOut
vars == <<pc, failAt, join, fds, evs, outcome, closeIn, closeOut>>

Init == /\ pc = "start" /\ failAt \in Steps /\ join \in WithJoin
        /\ fds = {} /\ evs = <<>> /\ outcome = "" /\ closeIn = FALSE /\ closeOut = FALSE

Raise(cls) == /\ outcome' = cls /\ pc' = "finally"

Open(role, mode) == /\ fds' = fds \cup {role} /\ evs' = Append(evs, <<"open", role, mode>>)
Close(role) == /\ fds' = fds \ {role} /\ evs' = Append(evs, <<"close", role>>)

OpenOut == /\ pc = "start"
           /\ IF failAt = "open_out" THEN /\ Raise("oserror") /\ UNCHANGED <<fds, evs, closeOut>>
              ELSE /\ Open("out", "wb") /\ closeOut' = TRUE /\ pc' = "open_in" /\ UNCHANGED outcome
           /\ UNCHANGED <<failAt, join, closeIn>>
OpenIn == /\ pc = "open_in"
          /\ IF failAt = "open_in" THEN /\ Raise("oserror") /\ UNCHANGED <<fds, evs, closeIn>>
             ELSE /\ Open("in", "rb") /\ closeIn' = TRUE /\ pc' = "validate" /\ UNCHANGED outcome
          /\ UNCHANGED <<failAt, join, closeOut>>
\* argument validation, pre-read of the first record, parsing: each may raise (IO / IO / parsing)
Validate == /\ pc = "validate"
            /\ IF failAt = "validate" THEN Raise("io") ELSE /\ pc' = "preread" /\ UNCHANGED outcome
            /\ UNCHANGED <<failAt, join, fds, evs, closeIn, closeOut>>
Preread == /\ pc = "preread"
           /\ IF failAt = "preread" THEN Raise("io") ELSE /\ pc' = "parse" /\ UNCHANGED outcome
           /\ UNCHANGED <<failAt, join, fds, evs, closeIn, closeOut>>
Parse == /\ pc = "parse"
         /\ IF failAt = "parse" THEN Raise("parsing") ELSE /\ pc' = (IF join THEN "open_join" ELSE "run") /\ UNCHANGED outcome
         /\ UNCHANGED <<failAt, join, fds, evs, closeIn, closeOut>>
\* the registry resolves and opens the join file (missing file: IO error before any open)
OpenJoin == /\ pc = "open_join"
            /\ IF failAt = "open_join" THEN /\ Raise("io") /\ UNCHANGED <<fds, evs>>
               ELSE /\ Open("join", "rb") /\ pc' = "join_preread" /\ UNCHANGED outcome
            /\ UNCHANGED <<failAt, join, closeIn, closeOut>>
JoinPreread == /\ pc = "join_preread"
               /\ IF failAt = "join_preread" THEN Raise("io") ELSE /\ pc' = "run" /\ UNCHANGED outcome
               /\ UNCHANGED <<failAt, join, fds, evs, closeIn, closeOut>>
Run == /\ pc = "run"
       /\ IF failAt = "run" THEN Raise("runtime") ELSE /\ pc' = "finish" /\ UNCHANGED outcome
       /\ UNCHANGED <<failAt, join, fds, evs, closeIn, closeOut>>
\* writer.finish(): the CSV writer closes the output stream it was told to close
Finish == /\ pc = "finish"
          /\ IF failAt = "finish" THEN /\ Raise("io") /\ UNCHANGED <<fds, evs>>
             ELSE /\ Close("out") /\ outcome' = "ok" /\ pc' = "finally"
          /\ UNCHANGED <<failAt, join, closeIn, closeOut>>
\* the finally block: input, output, registry.finish()
FinallyIn == /\ pc = "finally"
             /\ IF closeIn /\ "in" \in fds /\ ~(MUT = "skip_close_on_error" /\ outcome # "ok") THEN Close("in") ELSE UNCHANGED <<fds, evs>>
             /\ pc' = "finally_out" /\ UNCHANGED <<failAt, join, outcome, closeIn, closeOut>>
FinallyOut == /\ pc = "finally_out"
              /\ IF closeOut /\ "out" \in fds THEN Close("out") ELSE UNCHANGED <<fds, evs>>
              /\ pc' = "finally_join" /\ UNCHANGED <<failAt, join, outcome, closeIn, closeOut>>
FinallyJoin == /\ pc = "finally_join"
               /\ IF "join" \in fds THEN Close("join") ELSE UNCHANGED <<fds, evs>>
               /\ pc' = "terminated" /\ UNCHANGED <<failAt, join, outcome, closeIn, closeOut>>

Next == OpenOut \/ OpenIn \/ Validate \/ Preread \/ Parse \/ OpenJoin \/ JoinPreread \/ Run \/ Finish \/ FinallyIn \/ FinallyOut \/ FinallyJoin
Spec == Init /\ [][Next]_vars

\* C15: on every path - success, parsing error, runtime error, IO error - every opened file is closed
AllClosed == pc = "terminated" => (fds = {} /\ FdOk(evs))
\* the monitor agrees with the machine's own bookkeeping at every step
MonitorTracks == FdFold(F0, evs, 1).open = fds
=============================================================================
