----------------------------- MODULE QueryText -----------------------------
(***************************************************************************)
(* The shallow query parser at word level (C08): a query text is a         *)
(* sequence of words -- keyword words (with a spelling case), opaque       *)
(* expression words, string-literal words (whose content is itself a       *)
(* sequence of arbitrary words, keywords included), comment lines and      *)
(* trailing semicolons.                                                    *)
(*                                                                         *)
(* Declarative: an abstract query = a head clause (SELECT | UPDATE) and a  *)
(* set of further clauses, each a keyword and an expression span.          *)
(* Render(q, sigma) lays it out under a spelling sigma (clause order after *)
(* the head, keyword case, optional FROM a / SET, comment lines, trailing  *)
(* semicolons, TOP vs LIMIT).                                              *)
(* Operational: the parser as a machine consuming one word per step:       *)
(* comment lines and literals are skipped as units, keywords are matched   *)
(* case-insensitively and longest first within their group                 *)
(* (STRICT LEFT JOIN > LEFT OUTER JOIN > LEFT JOIN > INNER JOIN > JOIN),   *)
(* everything else extends the span of the current statement; SELECT       *)
(* strips TOP n / DISTINCT [COUNT], ORDER BY strips a final ASC / DESC,    *)
(* UPDATE an initial SET, and a redundant FROM a disappears.               *)
(* Theorem (TLC): Parse(Render(q, sigma)) = Actions(q) for every q and     *)
(* sigma within the bound -- meaning is independent of spelling, literal   *)
(* contents never influence the parse.  Every rendering is printed and     *)
(* replayed into the real cleanup_query / separate_string_literals /       *)
(* separate_actions.                                                       *)
(***************************************************************************)
EXTENDS Naturals, Sequences, FiniteSets, TLC, Json

\* words: <<"kw", NAME, case>> | <<"w", id>> | <<"lit", quote, content>> | <<"comment">> | <<"semi">> | <<"num", n>>
KW(name, c) == <<"kw", name, c>>
W(id) == <<"w", id>>

MultiWord == << <<"STRICT", "LEFT", "JOIN">>, <<"LEFT", "OUTER", "JOIN">>, <<"LEFT", "JOIN">>, <<"INNER", "JOIN">>, <<"ORDER", "BY">>, <<"GROUP", "BY">>,
                <<"JOIN">>, <<"SELECT">>, <<"UPDATE">>, <<"WHERE">>, <<"LIMIT">>, <<"EXCEPT">> >>
StatementOf(ws) == CASE ws = <<"STRICT", "LEFT", "JOIN">> -> "STRICT LEFT JOIN" [] ws = <<"LEFT", "OUTER", "JOIN">> -> "LEFT OUTER JOIN"
                     [] ws = <<"LEFT", "JOIN">> -> "LEFT JOIN" [] ws = <<"INNER", "JOIN">> -> "INNER JOIN" [] ws = <<"ORDER", "BY">> -> "ORDER BY"
                     [] ws = <<"GROUP", "BY">> -> "GROUP BY" [] OTHER -> ws[1]
WordsOf(st) == CHOOSE k \in 1..Len(MultiWord) : StatementOf(MultiWord[k]) = st
JoinKind(st) == st \in {"JOIN", "INNER JOIN", "LEFT JOIN", "LEFT OUTER JOIN", "STRICT LEFT JOIN"}

\* does keyword sequence ws start at position p of toks (any case)?
MatchAt(toks, p, ws) == p + Len(ws) - 1 <= Len(toks) /\ \A k \in 1..Len(ws) : toks[p + k - 1][1] = "kw" /\ toks[p + k - 1][2] = ws[k]
\* longest-first keyword at p, 0 if none
KeywordAt(toks, p) == LET ms == {k \in 1..Len(MultiWord) : MatchAt(toks, p, MultiWord[k])} IN
                      IF ms = {} THEN 0 ELSE CHOOSE k \in ms : \A m \in ms : k <= m

--------------------------------------------------------------------------
CONSTANTS Heads, Clauses, MaxClauses, LitContents, EmitCases, MUT

VARIABLES q, toks,                    \* the abstract query and its rendering (setup)
          pc, p, cur, acts, errp

vars == <<q, toks, pc, p, cur, acts, errp>>

\* an abstract query: [head, hspan, top (0 = none, else n+1), distinct, desc ("", "asc", "desc"), rest: Seq of [st, span]]
\* Actions(q): statement name -> span, plus the extracted modifiers
ActionsOf(qq) == [head |-> qq.head, hspan |-> qq.hspan, top |-> qq.top, distinct |-> qq.distinct, desc |-> qq.desc,
                  rest |-> {<<(IF JoinKind(qq.rest[k].st) THEN "JOIN" ELSE qq.rest[k].st), qq.rest[k].span, (IF JoinKind(qq.rest[k].st) THEN qq.rest[k].st ELSE "")>> : k \in 1..Len(qq.rest)}]

KwWords(st, c) == LET ws == MultiWord[WordsOf(st)] IN [k \in 1..Len(ws) |-> KW(ws[k], c)]

\* rendering of the head clause under spelling sg = [case, toptop, froma, set, semis, comment]
RenderHead(qq, sg) ==
    IF qq.head = "SELECT"
    THEN <<KW("SELECT", sg.case)>>
         \o (IF qq.top > 0 /\ sg.toptop THEN <<KW("TOP", sg.case), <<"num", qq.top - 1>> >> ELSE <<>>)
         \o (IF qq.distinct = "uniq" THEN <<KW("DISTINCT", sg.case)>> ELSE IF qq.distinct = "count" THEN <<KW("DISTINCT", sg.case), KW("COUNT", sg.case)>> ELSE <<>>)
         \o qq.hspan
         \o (IF sg.froma THEN <<KW("FROM", sg.case), W("a")>> ELSE <<>>)
    ELSE <<KW("UPDATE", sg.case)>> \o (IF sg.froma THEN <<W("a"), KW("SET", sg.case)>> ELSE IF sg.set THEN <<KW("SET", sg.case)>> ELSE <<>>) \o qq.hspan

RenderClause(c, qq, sg) ==
    KwWords(c.st, sg.case) \o c.span
    \o (IF c.st = "ORDER BY" /\ qq.desc = "desc" THEN <<KW("DESC", sg.case)>> ELSE IF c.st = "ORDER BY" /\ qq.desc = "asc" THEN <<KW("ASC", sg.case)>> ELSE <<>>)

RECURSIVE RenderRest(_, _, _)
RenderRest(cs, qq, sg) == IF cs = <<>> THEN <<>> ELSE (IF sg.comment THEN << <<"comment">> >> ELSE <<>>) \o RenderClause(cs[1], qq, sg) \o RenderRest(Tail(cs), qq, sg)

Render(qq, sg) == RenderHead(qq, sg)
                  \o RenderRest(qq.rest, qq, sg)
                  \o (IF qq.top > 0 /\ ~(sg.toptop /\ qq.head = "SELECT") /\ qq.head = "SELECT" THEN <<KW("LIMIT", sg.case), <<"num", qq.top - 1>> >> ELSE <<>>)
                  \o [k \in 1..sg.semis |-> <<"semi">>]
                  \o (IF sg.comment THEN << <<"comment">> >> ELSE <<>>)          \* a comment line after the end of the query (and after its semicolon)

Spellings == [case : 0..2, toptop : BOOLEAN, froma : BOOLEAN, set : BOOLEAN, semis : 0..1, comment : BOOLEAN]      \* "a trailing semicolon": one

Init == q = [head |-> "", hspan |-> <<>>, top |-> 0, distinct |-> "", desc |-> "", rest |-> <<>>] /\ toks = <<>> /\ pc = "head"
        /\ p = 1 /\ cur = "" /\ acts = [head |-> "", hspan |-> <<>>, top |-> 0, distinct |-> "", desc |-> "", rest |-> {}] /\ errp = FALSE

ChooseHead == /\ pc = "head"
              /\ \E h \in Heads : q' = [head |-> h.head, hspan |-> h.hspan, top |-> h.top, distinct |-> h.distinct, desc |-> "", rest |-> <<>>]
              /\ pc' = "clauses" /\ UNCHANGED <<toks, p, cur, acts, errp>>
\* clauses are appended in any order (that is the permutation); each statement group at most once; LIMIT comes from q.top
AddClause == /\ pc = "clauses" /\ Len(q.rest) < MaxClauses
             /\ \E c \in Clauses :
                  /\ \A k \in 1..Len(q.rest) : q.rest[k].st # c.st /\ ~(JoinKind(q.rest[k].st) /\ JoinKind(c.st))
                  /\ (q.head = "UPDATE" => c.st \notin {"ORDER BY", "GROUP BY", "EXCEPT"})
                  /\ \E d \in (IF c.st = "ORDER BY" THEN {"", "asc", "desc"} ELSE {q.desc}) :
                       q' = [q EXCEPT !.rest = Append(@, [st |-> c.st, span |-> c.span]), !.desc = d]
             /\ UNCHANGED <<toks, pc, p, cur, acts, errp>>
ChooseSpelling == /\ pc = "clauses"
                  /\ \E sg \in Spellings :
                       /\ (q.head = "UPDATE" => ~sg.toptop /\ q.top = 0)
                       /\ (sg.set => q.head = "UPDATE") /\ (sg.toptop => q.top > 0)
                       /\ toks' = Render(q, sg)
                  /\ pc' = "parse" /\ p' = 1 /\ UNCHANGED <<q, cur, acts, errp>>

\* ---- the parser: one word (or one keyword sequence) per step ----
AddToSpan(st, w) == IF st = acts.head THEN [acts EXCEPT !.hspan = Append(@, w)]
                    ELSE [acts EXCEPT !.rest = {(IF e[1] = st THEN <<e[1], Append(e[2], w), e[3]>> ELSE e) : e \in @}]
ParseStep ==
    /\ pc = "parse" /\ p <= Len(toks)
    /\ LET t == toks[p] k == KeywordAt(toks, p) IN
       IF t[1] = "comment" \/ t[1] = "semi" THEN /\ p' = p + 1 /\ UNCHANGED <<cur, acts, errp>>          \* cleanup_query
       ELSE IF k # 0
       THEN LET st == StatementOf(MultiWord[k]) name == IF JoinKind(st) THEN "JOIN" ELSE st IN
            /\ p' = p + Len(MultiWord[k])
            /\ IF st \in {"SELECT", "UPDATE"}
               THEN IF p # 1 \/ acts.head # "" THEN /\ errp' = TRUE /\ UNCHANGED <<cur, acts>>
                    ELSE /\ acts' = [acts EXCEPT !.head = st] /\ cur' = st /\ UNCHANGED errp
               ELSE IF st = "LIMIT" THEN /\ cur' = "LIMIT" /\ UNCHANGED <<acts, errp>>
               ELSE IF \E e \in acts.rest : e[1] = name THEN /\ errp' = TRUE /\ UNCHANGED <<cur, acts>>       \* More than one statement of a group
               ELSE /\ acts' = [acts EXCEPT !.rest = @ \cup {<<name, <<>>, (IF JoinKind(st) THEN st ELSE "")>>}] /\ cur' = name /\ UNCHANGED errp
       ELSE IF t[1] = "kw" /\ t[2] = "TOP" /\ cur = "SELECT" /\ acts.hspan = <<>> /\ p + 1 <= Len(toks) /\ toks[p + 1][1] = "num"
            THEN /\ acts' = [acts EXCEPT !.top = toks[p + 1][2] + 1] /\ p' = p + 2 /\ UNCHANGED <<cur, errp>>
       ELSE IF t[1] = "kw" /\ t[2] = "DISTINCT" /\ cur = "SELECT" /\ acts.hspan = <<>>
            THEN IF p + 1 <= Len(toks) /\ toks[p + 1][1] = "kw" /\ toks[p + 1][2] = "COUNT"
                 THEN /\ acts' = [acts EXCEPT !.distinct = "count"] /\ p' = p + 2 /\ UNCHANGED <<cur, errp>>
                 ELSE /\ acts' = [acts EXCEPT !.distinct = "uniq"] /\ p' = p + 1 /\ UNCHANGED <<cur, errp>>
       ELSE IF t[1] = "kw" /\ t[2] = "SET" /\ cur = "UPDATE" /\ acts.hspan = <<>> THEN /\ p' = p + 1 /\ UNCHANGED <<cur, acts, errp>>
       ELSE IF t[1] = "w" /\ t[2] = "a" /\ cur = "UPDATE" /\ acts.hspan = <<>> /\ p + 1 <= Len(toks) /\ toks[p + 1] [1] = "kw" /\ toks[p + 1][2] = "SET"
            THEN /\ p' = p + 2 /\ UNCHANGED <<cur, acts, errp>>                                            \* UPDATE a SET
       ELSE IF t[1] = "kw" /\ t[2] = "FROM" /\ p + 1 <= Len(toks) /\ toks[p + 1] = W("a") THEN /\ p' = p + 2 /\ UNCHANGED <<cur, acts, errp>>   \* redundant FROM a
       ELSE IF t[1] = "kw" /\ t[2] \in {"ASC", "DESC"} /\ cur = "ORDER BY" /\ (p = Len(toks) \/ KeywordAt(toks, p + 1) # 0 \/ toks[p + 1][1] \in {"semi", "comment"})
            THEN /\ acts' = [acts EXCEPT !.desc = IF t[2] = "DESC" THEN "desc" ELSE "asc"] /\ p' = p + 1 /\ UNCHANGED <<cur, errp>>
       ELSE IF cur = "LIMIT" /\ t[1] = "num" THEN /\ acts' = [acts EXCEPT !.top = t[2] + 1] /\ p' = p + 1 /\ UNCHANGED <<cur, errp>>
       ELSE /\ acts' = AddToSpan(cur, t) /\ p' = p + 1 /\ UNCHANGED <<cur, errp>>                         \* expression words and literals: opaque
    /\ UNCHANGED <<q, toks, pc>>
ParseEnd == /\ pc = "parse" /\ p = Len(toks) + 1 /\ pc' = "done" /\ UNCHANGED <<q, toks, p, cur, acts, errp>>

Next == ChooseHead \/ AddClause \/ ChooseSpelling \/ ParseStep \/ ParseEnd
Spec == Init /\ [][Next]_vars

\* ASC is the default: it leaves no trace in the meaning
NormDesc(d) == IF d = "desc" THEN "desc" ELSE ""
SpellingInvariant == pc = "done" => /\ ~errp
                                    /\ [acts EXCEPT !.desc = NormDesc(@)] = [ActionsOf(q) EXCEPT !.desc = NormDesc(@)]

Emit == (pc = "done" /\ EmitCases) => PrintT(ToJson([toks |-> toks, head |-> acts.head, hspan |-> acts.hspan, top |-> acts.top, distinct |-> acts.distinct,
                                                    desc |-> NormDesc(acts.desc), rest |-> {<<e[1], e[2], e[3]>> : e \in acts.rest}]))
=============================================================================
