-------------------------- MODULE CsvDialectTrace --------------------------
(***************************************************************************)
(* Code -> specification (DESIGN 4 (C)): every line of the ndjson file is  *)
(* one recorded execution of the real splitter                             *)
(*   {tid, line, dlm, policy, fields, warn, preserved}                     *)
(* (text as arrays of code points).  One TLC state per execution; the      *)
(* verdict is the declarative dialect evaluated by TLC.  Rejected          *)
(* executions are printed (with what the dialect prescribes) and counted   *)
(* by the harness; the run itself always ends normally so that every       *)
(* execution of the batch is judged.                                       *)
(***************************************************************************)
EXTENDS CsvDialect, IOUtils

Traces == ndJsonDeserialize(IOEnv.TRACE_FILE)

VARIABLE i
Init == i = 1
Next == i <= Len(Traces) /\ i' = i + 1

Verdict(t) == LET r == RefSplit(t.line, t.dlm, t.policy) IN
              /\ r.fields = t.fields
              /\ r.warn = t.warn
              /\ RefPreserve(t.line, t.dlm, t.policy) = t.preserved
              /\ (t.policy \in {"quoted", "quoted_rfc", "simple"} => JoinBy(t.preserved, t.dlm) = t.line)

Explain(t) == LET r == RefSplit(t.line, t.dlm, t.policy) IN
              [reject |-> t.tid, fields |-> r.fields, warn |-> r.warn, preserved |-> RefPreserve(t.line, t.dlm, t.policy)]

Judge == IF i <= Len(Traces)
         THEN Verdict(Traces[i]) \/ PrintT(ToJson(Explain(Traces[i])))
         ELSE PrintT(ToJson([consumed |-> Len(Traces)]))
=============================================================================
