"""Shared driver of the engine properties (C01..C07, C14, C15): TLC explores a family of RbqlEngine
cases, every terminal case is replayed into rbql.query of the tree, results are compared with TLC's
and the recorded events are judged by TLC with the monitors (EngineTrace)."""
import hashlib
import json
import multiprocessing
import os

from . import core, tlcrun, par, impl, engine

ENGINE_INVARIANTS = ['Correct', 'ErrCorrect', 'StreamPrefix', 'PullBound', 'Protocol', 'HeaderWidth', 'SortSpec', 'Emit']
ENGINE_PROPERTIES = ['Prompt', 'SourcesUnchanged', 'OutGrows', 'ChainRefinement']


def engine_cfg(path, queries, recsA, recsB='R_none', maxA=2, maxB=0, hdrmodes=(False,), breakpoints=(0,), emit=True, mut='', invariants=None, properties=None, cyclic=False, spec=None, constraints=(), next_=None, count=False):
    lines = (['SPECIFICATION ' + spec] if spec else ['INIT CountInit', 'NEXT CountNext', 'POSTCONDITION PrintCounts'] if count else ['INIT Init', 'NEXT %s' % (next_ or 'Next')]) + ['CONSTANTS', '  Cyclic = %s' % ('TRUE' if cyclic else 'FALSE'),
             '  Queries <- %s' % queries, '  RecsA <- %s' % recsA, '  RecsB <- %s' % recsB,
             '  MaxA = %d' % maxA, '  MaxB = %d' % maxB,
             '  HdrModes = {%s}' % ', '.join('TRUE' if h else 'FALSE' for h in hdrmodes),
             '  BreakPoints = {%s}' % ', '.join(str(b) for b in breakpoints),
             '  EmitCases = %s' % ('TRUE' if emit else 'FALSE'), '  MUT = "%s"' % mut]
    for inv in (invariants if invariants is not None else ENGINE_INVARIANTS):
        lines.append('INVARIANT ' + inv)
    for pr in (properties if properties is not None else ENGINE_PROPERTIES):
        lines.append('PROPERTY ' + pr)
    for c in constraints:
        lines.append('CONSTRAINT ' + c)
    lines.append('CHECK_DEADLOCK FALSE')
    with open(path, 'w') as f:
        f.write('\n'.join(lines) + '\n')
    return path


def action_counts(run, label, queries, recsA, recsB='R_none', maxA=2, maxB=0, hdrmodes=(False,), breakpoints=(0,)):
    """Thorough tier: how often each action of the machine is taken, on a reduced instance of the family (TLC's -coverage cannot be used with
    this specification, see MC_Engine.tla); one worker, counters in TLC registers."""
    d = tlcrun.new_scratch('engcount')
    cfg = engine_cfg(os.path.join(d, label + '.cfg'), queries, recsA, recsB, min(maxA, 2), min(maxB, 1), hdrmodes[:1], breakpoints[:2], emit=False, invariants=[], properties=[], count=True)
    res = tlcrun.run_tlc('MC_Engine', cfg, workers=1, timeout=3600, heap='8g')
    counts = {}
    for c in res.cases:
        if 'action_counts' in c:
            counts = {name: n for name, n in c['action_counts']}
    if not counts:
        core.machinery_failure('no action counts printed for ' + label)
    res.cases = []
    res.coverage = {'MC_Engine!' + k: v for k, v in counts.items()}
    run.add_tlc('MC_Engine:' + label + ':action-counts', res)
    run.notes.setdefault('action_counts', {})[label] = counts
    return counts


def case_key(case):
    return hashlib.sha1(json.dumps([case['q'], case['A'], case['B'], case['hasHdr'], case['breakAt']], sort_keys=True).encode()).hexdigest()[:16]


def trace_record(tid, case, obs):
    evs = []
    for e in obs['events']:
        evs.append({'e': e['e'], 't': e.get('t', 'w'), 'end': bool(e.get('end', False)), 'ok': bool(e.get('ok', True))})
    return {'tid': tid, 'outcome': 'error' if obs['err'] else 'ok', 'errcls': obs['err']['cls'] if obs['err'] else '', 'events': evs, 'streaming': bool(case['expect']['streaming']),
            'pulllimit': case['expect']['pulllimit'], 'alias': bool(obs['alias']), 'src_changed': bool(obs['src_changed'])}


def _replay_chunk(args):
    cases, opts = args
    mods = impl.load()
    out = []
    for tid, case in cases:
        key = case_key(case)
        sp = engine.Spelling(key + str(opts.get('seed', 0))) if opts.get('spelling', True) else engine.Plain()
        qtext = engine.render_query(case, sp, 'py')
        obs = engine.run_case_py(mods, case, qtext)
        sigs = engine.judge(case, obs, qtext, check_header=opts.get('check_header', True))
        if sigs and opts.get('spelling', True):
            # classify: does the plain spelling of the same query behave?
            ptext = engine.render_query(case, engine.Plain(), 'py')
            pobs = engine.run_case_py(mods, case, ptext)
            psigs = engine.judge(case, pobs, ptext, check_header=opts.get('check_header', True))
            if not psigs:
                sigs = [dict(s, what='spelling-dependent: ' + s['what'], plain_query=ptext) for s in sigs]
            else:
                sigs = [dict(s, plain_query=ptext) for s in psigs]
        if opts.get('endless') and case['expect']['streaming'] and not case['expect']['err'] and case['A'] and case['expect']['pulllimit'] <= len(case['A']):
            # C02: the same bounded streaming query over an iterator that never ends (A repeated for ever) must stop by itself, with the same rows
            eobs = engine.run_case_py(mods, case, qtext, endless_cap=4 * (len(case['A']) + 2))
            if eobs['gave_up'] or eobs['err']:
                sigs.append({'impl': 'py', 'what': 'does not terminate on unbounded input', 'pulled': eobs['pulled'], 'query': qtext})
            elif not engine.rows_match(eobs['rows'], case['expect']['out']) or eobs['pulled'] > case['expect']['pulllimit']:
                sigs.append({'impl': 'py', 'what': 'unbounded input: result or pulls differ', 'got': eobs['rows'], 'want': case['expect']['out'], 'pulled': eobs['pulled'], 'pulllimit': case['expect']['pulllimit'], 'query': qtext})
        if opts.get('warnings'):
            # field-count warnings: the input table's first (if any), then the join table's (both labelled "input" by TableIterator: I3)
            want = [list(w) for w in (case['expect']['raggedA'], case['expect']['raggedB']) if w]
            got = [r[1:] for r in obs['ragged']]
            if obs['err'] is None and case['expect']['fullscan'] and not case['hasHdr'] and got != want:
                sigs.append({'impl': 'py', 'what': 'field-count warning', 'got': got, 'want': want, 'query': qtext})
        if opts.get('nontrivial_rule') == 'header':
            nontrivial = bool(case['expect']['hashdr']) or bool(case['expect']['err'])
        else:
            nontrivial = len(case['A']) >= 2 and (bool(case['expect']['out']) or bool(case['expect']['err']))
        out.append((tid, key, sigs, trace_record(tid, case, obs), nontrivial, qtext))
    return out


class Replayer(object):
    """Streams TLC-emitted cases into a process pool (bounded memory), collects verdict material."""

    def __init__(self, run, opts):
        self.run = run
        self.opts = opts
        self.buf = []
        self.pending = []
        self.tid = 0
        self.traces = []
        self.pool = multiprocessing.get_context('fork').Pool(par.NPROC)
        self.ncases = 0
        self.sample_every = 0

    def sink(self, case):
        self.tid += 1
        self.ncases += 1
        self.buf.append((self.tid, case))
        if len(self.buf) >= 1500:
            self.flush()

    def flush(self):
        if self.buf:
            self.pending.append((self.buf, self.pool.apply_async(_replay_chunk, ((self.buf, self.opts),))))
            self.buf = []
        # bound memory: collect finished chunks
        while len(self.pending) > 64:
            self._collect(self.pending.pop(0))

    def _collect(self, item):
        cases, fut = item
        res = fut.get()
        cmap = dict(cases)
        for tid, key, sigs, trace, nontrivial, qtext in res:
            self.run.traces += 1
            self.run.count(key, nontrivial=nontrivial)
            self.traces.append(trace)
            if len(self.run.samples) < 4 and nontrivial and (tid % 97 == 0):
                c = cmap[tid]
                self.run.sample({'query': qtext, 'A': engine.table_py(c['A']), 'B': engine.table_py(c['B']), 'expect_out': c['expect']['out'][:4], 'expect_err': c['expect']['err']})
            for sig in sigs:
                self.run.violation(sig, {'kind': 'engine_case', 'case': cmap[tid], 'opts': self.opts})

    def finish(self):
        self.flush()
        for item in self.pending:
            self._collect(item)
        self.pending = []
        self.pool.close()
        self.pool.join()
        return self.traces


def validate_engine_traces(run, traces, label, cases_for_replay=None):
    if not traces:
        return
    d = tlcrun.new_scratch('engtrace')
    path = os.path.join(d, 'traces.ndjson')
    with open(path, 'w') as f:
        for t in traces:
            f.write(json.dumps(t) + '\n')
    cfg = tlcrun.write_cfg(os.path.join(d, 'trace.cfg'), invariants=['Judge'])
    res = tlcrun.run_tlc('EngineTrace', cfg, workers=1, env={'TRACE_FILE': path}, timeout=7200)
    run.add_tlc('EngineTrace:' + label, res)
    if not any('consumed' in c and c['consumed'] == len(traces) for c in res.cases) or res.distinct != len(traces) + 1:
        core.machinery_failure('engine trace batch not consumed to its end')
    bytid = {t['tid']: t for t in traces}
    for c in res.cases:
        if 'reject' in c:
            failed = sorted(k for k, v in c['reasons'].items() if not v)
            t = bytid[c['reject']]
            case = (cases_for_replay or {}).get(c['reject'])
            run.violation({'impl': 'py', 'what': 'trace rejected by EngineTrace', 'monitors': ','.join(failed)},
                          {'kind': 'engine_trace', 'trace': t, 'case': case})


def run_family(run, label, queries, recsA, recsB='R_none', maxA=2, maxB=0, hdrmodes=(False,), breakpoints=(0,), opts=None,
               invariants=None, timeout=7200, simulate=None):
    opts = dict(opts or {})
    opts.setdefault('seed', run.seed)
    d = tlcrun.new_scratch('eng')
    cfg = engine_cfg(os.path.join(d, label + '.cfg'), queries if not simulate else 'Q_C13', recsA, recsB, maxA, maxB, hdrmodes, breakpoints, invariants=invariants, next_=(opts.get('sim_next') or 'SimNext') if simulate else None)
    rp = Replayer(run, opts)
    keep = {}

    def sink(case):
        rp.sink(case)
        if len(keep) < 50000:
            keep[rp.tid] = case

    if simulate:
        # sampling of a product too large to enumerate: random behaviours (= random cases), seeded by VERIF_SEED
        res = tlcrun.run_tlc('MC_EngineSim', cfg, timeout=timeout, heap='24g', case_sink=sink, simulate=simulate, depth=200, seed=run.seed, workers=8)
    else:
        res = tlcrun.run_tlc('MC_Engine', cfg, timeout=timeout, heap='24g', case_sink=sink)
        if run.tier != 'quick':
            action_counts(run, label, queries, recsA, recsB, maxA, maxB, hdrmodes, breakpoints)
    run.add_tlc('MC_Engine:' + label + (':simulate' if simulate else ''), res)
    traces = rp.finish()
    if rp.ncases == 0:
        core.machinery_failure('no cases emitted for ' + label)
    validate_engine_traces(run, traces, label, keep)
    run.notes.setdefault('cases_per_family', {})[label] = rp.ncases
    return rp.ncases


def spec_mutant(run, queries, recsA, mut, recsB='R_none', maxA=2, maxB=0, hdrmodes=(False,), breakpoints=(0,)):
    """R5 (ii): a specification mutant must be rejected by TLC (the invariants can fail)."""
    d = tlcrun.new_scratch('engmut')
    cfg = engine_cfg(os.path.join(d, mut + '.cfg'), queries, recsA, recsB, maxA, maxB, hdrmodes, breakpoints, emit=False, mut=mut)
    res = tlcrun.run_tlc('MC_Engine', cfg, expect_violation=True, timeout=3600, heap='24g')
    if res.violation is None:
        core.machinery_failure('spec mutant %s was not rejected by TLC' % mut)
    run.notes.setdefault('spec_mutants_rejected', []).append('RbqlEngine/%s -> %s' % (mut, res.violation))


def replay_file(prop, path):
    with open(path) as f:
        rep = json.load(f)
    run = core.Run(prop, 'quick', 0)
    c = rep['case']
    case = c.get('case')
    if case is None:
        print('replay file holds no case')
        return 2
    opts = c.get('opts', {})
    res = _replay_chunk(([(1, case)], opts))
    for tid, key, sigs, trace, nontrivial, qtext in res:
        print('query:', qtext)
        run.traces += 1
        for sig in sigs:
            run.violation(sig, c)
        validate_engine_traces(run, [trace], 'replay', {1: case})
    return run.finish()


def run_family_js(run, label, queries, recsA, recsB='R_none', maxA=2, maxB=0, hdrmodes=(False,), opts=None, also=None):
    """The same TLC-emitted cases rendered into JavaScript syntax and run through rbql-js query_table (C19, C06)."""
    from . import node
    opts = dict(opts or {})
    d = tlcrun.new_scratch('engjs')
    cfg = engine_cfg(os.path.join(d, label + '.cfg'), queries, recsA, recsB, maxA, maxB, hdrmodes, (0,))
    res = tlcrun.run_tlc('MC_Engine', cfg, timeout=7200, heap='24g')
    run.add_tlc('MC_Engine:' + label, res)
    cases = res.cases
    reqs = []
    texts = []
    for case in cases:
        key = case_key(case)
        sp = engine.Spelling(key + 'js' + str(run.seed)) if opts.get('spelling', True) else engine.Plain()
        qtext = engine.render_query(case, sp, 'js')
        texts.append(qtext)
        reqs.append(engine.js_request(case, qtext))
    resp = node.run_batch(reqs, nproc=par.NPROC)
    for case, qtext, r in zip(cases, texts, resp):
        obs = engine.js_observation(r)
        sigs = engine.judge(case, obs, qtext, check_header=opts.get('check_header', True))
        sigs = [dict(s, impl='js') for s in sigs]
        if obs['src_changed']:
            sigs.append({'impl': 'js', 'what': 'caller arrays modified', 'kind': case['q']['kind'], 'query': qtext})
        if obs['alias']:
            sigs.append({'impl': 'js', 'what': 'output row aliases an input row', 'kind': case['q']['kind'], 'query': qtext})
        run.traces += 1
        nontrivial = len(case['A']) >= 2 and (bool(case['expect']['out']) or bool(case['expect']['err']))
        run.count(['js', case_key(case)], nontrivial=nontrivial)
        if len(run.samples) < 5 and nontrivial and len(case['A']) == 2:
            run.sample({'js_query': qtext, 'A': engine.table_py(case['A']), 'expect_out': case['expect']['out'][:3]})
        for sig in sigs:
            run.violation(sig, {'kind': 'engine_case_js', 'case': case, 'opts': opts})
    run.notes.setdefault('cases_per_family', {})[label] = len(cases)
    return len(cases)
