"""Text <-> code point arrays (specifications hold text as Seq(Int), DESIGN R2)."""


def s(cps):
    return ''.join(map(chr, cps))


def cps(text):
    return [ord(c) for c in text]


def ss(list_of_cps):
    return [s(x) for x in list_of_cps]


def cpss(list_of_text):
    return [cps(x) for x in list_of_text]
