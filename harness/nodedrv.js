// Batch driver for the JavaScript port of RBQL (the working tree's rbql-js, required by absolute path).
// Protocol: one JSON request per stdin line -> one JSON response per stdout line, in order.
// The driver only renders, runs and projects (DESIGN R1): it contains no expected values.
'use strict';
const path = require('path');
const readline = require('readline');
const stream = require('stream');
const REPO = process.env.RBQL_REPO || '/repo';
const jsroot = path.join(REPO, 'rbql-js');
const csv_utils = require(path.join(jsroot, 'csv_utils.js'));
const rbql_csv = require(path.join(jsroot, 'rbql_csv.js'));
const rbql = require(path.join(jsroot, 'rbql.js'));

function err_info(e) {
    let cls = (e && e.constructor) ? e.constructor.name : 'unknown';
    let msg = e && e.message !== undefined ? String(e.message) : String(e);
    return {cls: cls, msg: msg};
}

function op_split(req) {
    // every policy, normal and preserve mode
    let out = {};
    for (let pol of req.policies) {
        for (let pres of [false, true]) {
            let key = pol + (pres ? '_p' : '');
            try {
                let r = csv_utils.smart_split(req.line, req.dlm, pol, pres);
                out[key] = {fields: r[0], warn: !!r[1]};
            } catch (e) {
                out[key] = {error: err_info(e)};
            }
        }
    }
    try {
        out.quote = csv_utils.quote_field(req.line, req.dlm);
        out.rfcquote = csv_utils.rfc_quote_field(req.line, req.dlm);
    } catch (e) {
        out.quote_error = err_info(e);
    }
    return out;
}

// A Readable the driver pushes into by hand: chunking and producer/consumer order follow the case.
class HandStream extends stream.Readable {
    constructor() { super({highWaterMark: 1 << 20}); }
    _read() {}
}

function tick() { return new Promise(resolve => setImmediate(resolve)); }

async function op_read(req) {
    // req: {chunks: [[bytes...], ...], encoding, dlm, policy, header, comment, consume_first: bool, mode: 'stream'|'bulk'}
    let events = [];
    let result = {records: null, warnings: null, error: null};
    if (req.mode === 'bulk') {
        const fs = require('fs');
        const os = require('os');
        let tmp = path.join(os.tmpdir(), 'rbqlverif_bulk_' + process.pid + '_' + (op_read.n = (op_read.n || 0) + 1));
        let all = [];
        for (let c of req.chunks) all = all.concat(c);
        fs.writeFileSync(tmp, Buffer.from(all));
        try {
            let it = new rbql_csv.CSVRecordIterator(null, tmp, req.encoding, req.dlm, req.policy, !!req.header, req.comment || null);
            let hdr = await it.get_header();
            result.header = hdr;
            result.records = await it.get_all_records();
            result.warnings = it.get_warnings();
        } catch (e) {
            result.error = err_info(e);
        } finally {
            try { fs.unlinkSync(tmp); } catch (e) {}
        }
        return result;
    }
    let hs = new HandStream();
    let it = new rbql_csv.CSVRecordIterator(hs, null, req.encoding, req.dlm, req.policy, !!req.header, req.comment || null);
    let chunks = req.chunks.map(c => Buffer.from(c));
    let feeder = req.alternate ? null : (async () => {
        // producer: one chunk per macrotask turn; in 'consume_first' mode the consumer's get_record is already pending
        if (req.consume_first)
            await tick();
        for (let c of chunks) {
            hs.push(c);
            await tick();
            if (req.slow_producer) { await tick(); await tick(); }
        }
        hs.push(null);
    })();
    if (req.alternate) {
        // the consumer takes at most `alternate` records after each delivered chunk (records pile up in the reader's queue and are
        // taken while later chunks are still arriving), then drains
        let got = [], failure = null, pending = null, eof = false;
        let arm = () => { pending = it.get_record().then(r => { pending = null; if (r === null) eof = true; else got.push(r); }, e => { pending = null; failure = e; }); };
        try {
            await it.start();
            for (let c of chunks) {
                hs.push(c);
                await tick();
                for (let k = 0; k < req.alternate && !eof && !failure; k++) {
                    if (!pending) arm();
                    await tick();
                    if (pending) break;
                }
            }
            hs.push(null);
            await tick();
            while (!eof && !failure) {
                if (!pending) arm();
                await pending;
            }
            if (failure) throw failure;
            result.records = got;
            result.warnings = it.get_warnings();
        } catch (e) {
            result.error = err_info(e);
            try { result.warnings = it.get_warnings(); } catch (e2) {}
        }
        hs.destroy();
        return result;
    }
    try {
        if (!req.consume_first) {
            if (req.producer_first_all) {
                // let the whole input arrive before the first get_record: register the handlers first
                await it.start();
                await feeder;
            }
        }
        let hdr = await it.get_header();
        result.header = hdr;
        result.records = await it.get_all_records();
        result.warnings = it.get_warnings();
    } catch (e) {
        result.error = err_info(e);
        try { result.warnings = it.get_warnings(); } catch (e2) {}
    }
    await feeder;
    hs.destroy();
    return result;
}

async function op_read_file(req) {
    // real file: 'file_stream' -> fs.createReadStream (64 KiB chunks), 'bulk' -> fs.readFile
    const fs = require('fs');
    let result = {records: null, warnings: null, error: null};
    try {
        let it = req.mode === 'bulk'
            ? new rbql_csv.CSVRecordIterator(null, req.path, req.encoding, req.dlm, req.policy, false, req.comment || null)
            : new rbql_csv.CSVRecordIterator(fs.createReadStream(req.path), null, req.encoding, req.dlm, req.policy, false, req.comment || null);
        result.records = await it.get_all_records();
        result.warnings = it.get_warnings();
    } catch (e) {
        result.error = err_info(e);
    }
    return result;
}

async function op_write(req) {
    // req: {table, dlm, policy, linesep, encoding}
    let chunks = [];
    let ws = new stream.Writable({
        write(chunk, enc, cb) { chunks.push(Buffer.from(chunk, enc)); cb(); },
        decodeStrings: false,
    });
    let res = {};
    try {
        let w = new rbql_csv.CSVWriter(ws, false, req.encoding, req.dlm, req.policy, req.linesep);
        for (let rec of req.table)
            await w.write(rec.slice());
        await w.finish();
        res.warnings = w.get_warnings();
        res.bytes = Array.from(Buffer.concat(chunks));
    } catch (e) {
        res.error = err_info(e);
    }
    return res;
}

async function op_query_csv(req) {
    // rbql-js file front-end: {query, input, output, with_headers}
    const fs = require('fs');
    let warnings = [];
    let res = {};
    try {
        await rbql_csv.query_csv(req.query, req.input, req.in_dlm || ',', req.in_policy || 'quoted', req.output, req.out_dlm || ',', req.out_policy || 'quoted', 'utf-8', warnings, !!req.with_headers, null, '', req.bulk ? {bulk_read: true} : null);
        res.warnings = warnings;
        res.text = fs.readFileSync(req.output, 'utf-8');
    } catch (e) {
        res.error = err_info(e);
    }
    return res;
}

function project(v) {
    if (v === null || v === undefined) return ['n'];
    if (typeof v === 'string') return ['s', Array.from(v).map(c => c.codePointAt(0))];
    if (typeof v === 'number') return Number.isInteger(v) ? ['i', v] : ['f', v];
    if (typeof v === 'boolean') return ['b', v];
    if (Array.isArray(v)) return ['l', v.map(project)];
    return ['?', String(v)];
}

async function op_query_table(req) {
    // req: {query, input, join, input_header, join_header, user_init}
    let input = req.input;
    let join = req.join === undefined ? null : req.join;
    let snap_in = JSON.stringify(input);
    let snap_join = JSON.stringify(join);
    let rows_in = input.slice();
    let rows_join = join ? join.slice() : [];
    let out = [];
    let warnings = [];
    let out_names = [];
    let res = {};
    try {
        await rbql.query_table(req.query, input, out, warnings, join, req.input_header || null, req.join_header || null, out_names, req.normalize === false ? false : true, req.user_init || '');
        res.out = out.map(r => r.map(project));
        res.warnings = warnings;
        res.header = out_names;
    } catch (e) {
        res.error = err_info(e);
        res.out = [];
        res.warnings = warnings;
    }
    res.src_intact = (JSON.stringify(input) === snap_in) && (JSON.stringify(join) === snap_join);
    let alias = false;
    for (let r of (res.error ? [] : out)) {
        if (rows_in.indexOf(r) !== -1 || rows_join.indexOf(r) !== -1) alias = true;
    }
    res.alias = alias;
    return res;
}

function op_like(req) {
    // req: {pairs: [[text, pattern], ...]}
    let out = [];
    for (let [t, p] of req.pairs) {
        try {
            let rx = new RegExp(rbql.like_to_regex(p));
            out.push(rx.test(t));
        } catch (e) {
            out.push({error: err_info(e)});
        }
    }
    return {res: out};
}

const OPS = {split: op_split, read: op_read, read_file: op_read_file, write: op_write, query_table: op_query_table, like: op_like, query_csv: op_query_csv,
             ping: async () => ({pong: true, version: rbql.version})};

// A request that the implementation never answers (a promise that is never settled), or that makes it throw outside of any promise
// chain, must not take the driver down: it is answered with an error object, like any other failure of the implementation.
let crash_current = null;
let hangs = 0;
process.on('uncaughtException', e => { if (crash_current) crash_current(e); else { process.stderr.write(String(e && e.stack || e) + '\n'); process.exit(3); } });
process.on('unhandledRejection', e => { if (crash_current) crash_current(e); });
const REQUEST_TIMEOUT_MS = parseInt(process.env.RBQL_VERIF_NODE_TIMEOUT_MS || '20000');

async function main() {
    const rl = readline.createInterface({input: process.stdin, crlfDelay: Infinity});
    for await (const line of rl) {
        if (!line.trim()) continue;
        let resp;
        let timer = null;
        try {
            let req = JSON.parse(line);
            let fn = OPS[req.op];
            if (!fn) throw new Error('unknown op ' + req.op);
            if (hangs >= 10) {
                // circuit breaker: this driver process has seen 10 requests go unanswered; the rest is not run
                process.stdout.write(JSON.stringify({error: {cls: 'Hang', msg: 'not run: 10 earlier requests of this batch were never answered by the implementation'}, out: [], records: null, warnings: null}) + '\n');
                continue;
            }
            let limit = hangs >= 3 ? Math.min(REQUEST_TIMEOUT_MS, 1000) : REQUEST_TIMEOUT_MS;
            let guard = new Promise((resolve, reject) => {
                crash_current = e => resolve({error: {cls: 'Uncaught:' + ((e && e.constructor) ? e.constructor.name : 'unknown'), msg: String(e && e.message !== undefined ? e.message : e)}, out: [], records: null, warnings: null});
                timer = setTimeout(() => { hangs += 1; resolve({error: {cls: 'Hang', msg: 'the implementation did not answer within ' + limit + ' ms'}, out: [], records: null, warnings: null}); }, limit);
            });
            resp = await Promise.race([fn(req), guard]);
        } catch (e) {
            let stack = e && e.stack ? String(e.stack).slice(0, 2000) : '';
            if (stack.indexOf('/rbql-js/') !== -1)
                resp = {error: err_info(e), out: [], records: null, warnings: null};      // raised inside the implementation, where the driver expects no exception
            else
                resp = {driver_error: err_info(e), stack: stack};
        }
        if (timer) clearTimeout(timer);
        crash_current = null;
        process.stdout.write(JSON.stringify(resp) + '\n');
    }
}

main().catch(e => { process.stderr.write(String(e && e.stack || e) + '\n'); process.exit(3); });
