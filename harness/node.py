"""Feed batches of requests to harness/nodedrv.js (which requires the tree's rbql-js by absolute path)."""
import json
import os
import subprocess

from . import tlcrun

HERE = os.path.dirname(os.path.abspath(__file__))
DRIVER = os.path.join(HERE, 'nodedrv.js')


class NodeFailure(Exception):
    pass


def run_batch(reqs, nproc=8, timeout=3600):
    """reqs: list of dicts. Returns list of responses in the same order."""
    if not reqs:
        return []
    nproc = max(1, min(nproc, (len(reqs) + 199) // 200))
    d = tlcrun.new_scratch('node')
    shards = [[] for _ in range(nproc)]
    for i, r in enumerate(reqs):
        shards[i % nproc].append(r)
    procs = []
    for k, sh in enumerate(shards):
        inp = os.path.join(d, 'in%d.ndjson' % k)
        outp = os.path.join(d, 'out%d.ndjson' % k)
        with open(inp, 'w') as f:
            for r in sh:
                f.write(json.dumps(r) + '\n')
        fi = open(inp, 'r')
        fo = open(outp, 'w')
        env = dict(os.environ)
        p = subprocess.Popen(['node', DRIVER], stdin=fi, stdout=fo, stderr=subprocess.PIPE, env=env)
        procs.append((p, fi, fo, outp, len(sh)))
    outs = []
    for p, fi, fo, outp, n in procs:
        try:
            _, err = p.communicate(timeout=timeout)
        except subprocess.TimeoutExpired:
            p.kill()
            raise NodeFailure('node driver timed out')
        fi.close()
        fo.close()
        if p.returncode != 0:
            raise NodeFailure('node driver exit %s: %s' % (p.returncode, err.decode('utf-8', 'replace')[-2000:]))
        with open(outp) as f:
            resp = [json.loads(l) for l in f if l.strip()]
        if len(resp) != n:
            raise NodeFailure('node driver answered %d of %d requests: %s' % (len(resp), n, err.decode('utf-8', 'replace')[-2000:]))
        outs.append(resp)
    res = [None] * len(reqs)
    for k, resp in enumerate(outs):
        for j, r in enumerate(resp):
            res[k + j * nproc] = r
    for r in res:
        if isinstance(r, dict) and 'driver_error' in r:
            raise NodeFailure('driver error: %s' % json.dumps(r)[:1000])
    return res
