"""setup_cmd: offline sanity of the framework -- every TLA+ module parses (SANY), the tree's code is importable
from /repo (not site-packages), node can require the tree's rbql-js."""
import glob
import os
import sys

from . import tlcrun, core


def main():
    ok = True
    mods = sorted(glob.glob(os.path.join(tlcrun.SPEC_DIR, '*.tla')))
    for m in mods:
        good, out = tlcrun.sany(m)
        print('SANY %-28s %s' % (os.path.basename(m), 'ok' if good else 'FAILED'))
        if not good:
            print(out[-3000:])
            ok = False
    from . import impl
    rbql, eng, rcsv, cu = impl.load()
    print('python implementation under test:', rbql.__file__, rbql.__version__)
    from . import node
    r = node.run_batch([{'op': 'ping'}])
    print('node implementation under test: rbql-js', r[0].get('version'))
    os.makedirs(core.EVIDENCE_DIR, exist_ok=True)
    return 0 if ok else 2
