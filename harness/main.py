import argparse
import importlib
import os
import sys
import traceback

sys.dont_write_bytecode = True
HERE = os.path.dirname(os.path.abspath(__file__))
sys.path.insert(0, os.path.dirname(HERE))

from harness import core, tlcrun  # noqa: E402


def main():
    ap = argparse.ArgumentParser()
    ap.add_argument('prop')
    ap.add_argument('--tier', default='quick', choices=['quick', 'thorough'])
    ap.add_argument('--replay', default=None)
    args = ap.parse_args()
    tier = os.environ.get('VERIF_TIER') or args.tier
    if tier not in ('quick', 'thorough'):
        tier = args.tier
    try:
        seed = int(os.environ.get('VERIF_SEED', '20261003'))
    except ValueError:
        seed = 20261003
    if args.prop == 'setup':
        from harness import setup
        sys.exit(setup.main())
    name = args.prop.upper()
    try:
        mod = importlib.import_module('harness.props.' + name.lower())
    except ImportError:
        traceback.print_exc()
        core.machinery_failure('no check for %s' % name)
    try:
        if args.replay:
            rc = mod.replay(args.replay)
        else:
            run = core.Run(name, tier, seed)
            mod.check(run)
            rc = run.finish()
    except tlcrun.TlcFailure as e:
        core.machinery_failure(str(e))
    except SystemExit:
        raise
    except Exception:
        traceback.print_exc()
        core.machinery_failure('harness exception')
    sys.exit(rc)


if __name__ == '__main__':
    main()
