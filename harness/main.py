import argparse
import importlib
import os
import sys
import traceback

sys.dont_write_bytecode = True
HERE = os.path.dirname(os.path.abspath(__file__))
sys.path.insert(0, os.path.dirname(HERE))

from harness import core, tlcrun  # noqa: E402


def main():
    ap = argparse.ArgumentParser()
    ap.add_argument('prop')
    ap.add_argument('--tier', default='quick', choices=['quick', 'thorough'])
    ap.add_argument('--replay', default=None)
    args = ap.parse_args()
    tier = os.environ.get('VERIF_TIER') or args.tier
    if tier not in ('quick', 'thorough'):
        tier = args.tier
    try:
        seed = int(os.environ.get('VERIF_SEED', '20261003'))
    except ValueError:
        seed = 20261003
    if args.prop == 'setup':
        from harness import setup
        sys.exit(setup.main())
    name = args.prop.upper()
    try:
        mod = importlib.import_module('harness.props.' + name.lower())
    except ImportError:
        traceback.print_exc()
        core.machinery_failure('no check for %s' % name)
    try:
        if args.replay:
            rc = mod.replay(args.replay)
        else:
            run = core.Run(name, tier, seed)
            mod.check(run)
            rc = run.finish()
    except tlcrun.TlcFailure as e:
        core.machinery_failure(str(e))
    except SystemExit:
        raise
    except Exception as e:
        from harness import par
        traceback.print_exc()
        if isinstance(e, par.ImplementationFault) or par.innermost_in_repo(e.__traceback__) or par.remote_in_repo(e):
            # the implementation raised (or never returned) where the check calls it on inputs the specification defines: that is a
            # behaviour the specification does not allow, not a failure of the machinery
            text = str(e) if isinstance(e, par.ImplementationFault) else (str(getattr(e, '__cause__', '') or '') + traceback.format_exc())[-3000:]
            frun = core.Run(name, tier, seed)
            frun.rule = 'aborted: the implementation raised or hung inside the harness'
            last = [l.strip() for l in text.split('\n') if l.strip()][-1][:200]
            frun.violation({'what': 'the implementation raised or did not return where the check expects a result', 'exception': last}, {'kind': 'traceback', 'text': text})
            sys.exit(frun.finish())
        core.machinery_failure('harness exception')
    sys.exit(rc)


if __name__ == '__main__':
    main()
