"""Verdicts, evidence files, known findings, replay files (DESIGN R6, section 7)."""
import hashlib
import json
import os
import sys
import time

VERIF = os.path.dirname(os.path.dirname(os.path.abspath(__file__)))
REPO = os.environ.get('RBQL_REPO', '/repo')
EVIDENCE_DIR = os.path.join(VERIF, 'evidence')
REPLAY_DIR = os.path.join(VERIF, 'replays')
FINDINGS_FILE = os.path.join(VERIF, 'known_findings.jsonl')


def load_findings():
    """known_findings.jsonl: one JSON object per line.
    {"status": "finding", "property": "C08", "id": "D9", "match": {...}, "what": "..."}   -> suppresses matching violations
    {"status": "fixed", ...}  -> suppresses nothing (DESIGN section 6)
    """
    out = []
    if not os.path.exists(FINDINGS_FILE):
        return out
    with open(FINDINGS_FILE) as f:
        for line in f:
            line = line.strip()
            if not line or line.startswith('#'):
                continue
            out.append(json.loads(line))
    return out


def _match(pattern, sig):
    """A finding matches a violation signature iff every key of the finding's `match` equals the signature's value."""
    for k, v in pattern.items():
        if sig.get(k) != v:
            return False
    return True


class Run(object):
    """State of one check run: counters, samples, violations."""

    def __init__(self, prop, tier, seed, level='model_checking'):
        self.prop = prop
        self.tier = tier
        self.seed = seed
        self.level = level
        self.t0 = time.time()
        self.states = 0
        self.transitions = 0
        self.traces = 0            # replayed cases + validated traces against the implementation
        self.evaluations = 0
        self.nontrivial = set()
        self.samples = []
        self.violations = []       # (signature dict, case)
        self.known_seen = {}
        self.notes = {}
        self.assumptions = []
        self.exhaustive = False
        self.rule = ''
        self.coverage_by_action = {}
        self.findings = [f for f in load_findings() if f.get('status') == 'finding']
        self.tlc_runs = []
        self.sig_hist = {}

    def add_tlc(self, name, res):
        self.states += res.distinct
        self.transitions += res.generated
        self.tlc_runs.append({'run': name, 'distinct_states': res.distinct, 'states_generated': res.generated, 'wall_s': round(res.wall, 1)})
        for k, v in res.coverage.items():
            self.coverage_by_action[k] = self.coverage_by_action.get(k, 0) + v

    def sample(self, obj, limit=6):
        if len(self.samples) < limit:
            self.samples.append(obj)

    def count(self, key, nontrivial=True, n=1):
        self.evaluations += n
        if nontrivial:
            if not isinstance(key, str):
                key = json.dumps(key, sort_keys=True)
            self.nontrivial.add(hashlib.blake2b(key.encode('utf-8', 'replace'), digest_size=8).digest())

    def violation(self, sig, case):
        """sig: flat dict describing the failure (used to match known findings). case: replayable JSON."""
        sig = dict(sig)
        sig.setdefault('property', self.prop)
        for f in self.findings:
            if f.get('property') in (self.prop, sig.get('also')) or self.prop in f.get('also_properties', []):
                if _match(f.get('match', {}), sig):
                    key = f.get('id', 'finding')
                    self.known_seen[key] = self.known_seen.get(key, 0) + 1
                    self.known_what = getattr(self, 'known_what', {})
                    self.known_what[key] = f.get('what', '')
                    return False
        hk = ' '.join('%s=%s' % (k, v) for k, v in sorted(sig.items()) if isinstance(v, (str, int, bool)) and k not in ('got', 'want', 'line', 'detail', 'property', 'query', 'plain_query', 'msg') and len(str(v)) < 60)
        self.sig_hist[hk] = self.sig_hist.get(hk, 0) + 1
        if self.sig_hist[hk] > 3 or len(self.sig_hist) > 300:
            self.violations.append((sig, None))
        else:
            self.violations.append((sig, case))
        return True

    def finish(self):
        wall = time.time() - self.t0
        os.makedirs(EVIDENCE_DIR, exist_ok=True)
        cov = {
            'states': int(self.states),
            'transitions': int(self.transitions),
            'traces_validated_against_impl': int(self.traces),
            'samples': self.samples if self.samples else [{'note': 'no sample recorded'}],
            'evaluations': int(self.evaluations),
            'distinct_nontrivial': len(self.nontrivial),
            'rule': self.rule,
            'exhaustive': bool(self.exhaustive),
            'tlc_runs': self.tlc_runs,
            'coverage_by_action': self.coverage_by_action,
            'known_findings_seen': self.known_seen,
        }
        cov.update(self.notes)
        ev = {
            'property_id': self.prop,
            'tier': self.tier,
            'seed': int(self.seed),
            'level': self.level,
            'coverage': cov,
            'assumptions': self.assumptions,
            'wall_s': round(wall, 2),
            'violations': len(self.violations),
        }
        with open(os.path.join(EVIDENCE_DIR, self.prop + '.json'), 'w') as f:
            json.dump(ev, f, indent=1, sort_keys=True, default=str)
            f.write('\n')
        for key, n in sorted(self.known_seen.items()):
            print('KNOWN-FINDING: property=%s %s (%s; seen %d times)' % (self.prop, key, getattr(self, 'known_what', {}).get(key, ''), n))
        if self.violations:
            os.makedirs(REPLAY_DIR, exist_ok=True)
            shown = 0
            for sig, case in self.violations:
                if case is None:
                    continue
                h = hashlib.sha1(json.dumps(case, sort_keys=True, default=str).encode()).hexdigest()[:12]
                path = os.path.join(REPLAY_DIR, '%s_%s.json' % (self.prop, h))
                with open(path, 'w') as f:
                    json.dump({'property': self.prop, 'signature': sig, 'case': case}, f, indent=1, default=str)
                if shown < 10:
                    print('%s property=%s replay=%s' % ('EXTENSION-MISMATCH' if self.prop == 'EXT' else 'VIOLATION', self.prop, path))
                    print('  ' + json.dumps(sig, default=str)[:600])
                    shown += 1
            for hk, n in sorted(self.sig_hist.items(), key=lambda kv: -kv[1])[:40]:
                print('  %6d x %s' % (n, hk))
            print('%s: %d violation(s) in %.1fs' % (self.prop, len(self.violations), wall))
            return 1
        print('%s: held on everything explored: %d TLC states, %d transitions, %d executions of the implementation checked (%d distinct non-trivial), %.1fs'
              % (self.prop, self.states, self.transitions, self.traces, len(self.nontrivial), wall))
        return 0


def machinery_failure(msg):
    sys.stdout.flush()
    sys.stderr.write('MACHINERY-FAILURE: %s\n' % msg)
    sys.exit(2)
