"""Run TLC on a module of /verif/spec and parse what it printed.

TLC is the only oracle in this framework (DESIGN R1): every expected value the harness
compares against is printed by TLC from the TLA+ text (PrintT(ToJson(..))), and every
recorded execution is judged by TLC evaluating the TLA+ text over the ndjson file.
"""
import json
import os
import re
import shutil
import subprocess
import tempfile
import time

SPEC_DIR = os.path.join(os.path.dirname(os.path.dirname(os.path.abspath(__file__))), 'spec')
TLA_CP = '/opt/veriftools/tla/tla2tools.jar:/opt/veriftools/tla/CommunityModules-deps.jar'


class TlcFailure(Exception):
    """TLC itself failed (parse error, evaluation error, crash): machinery failure, exit 2."""


class TlcResult(object):
    def __init__(self):
        self.generated = 0      # states generated == transitions taken
        self.distinct = 0       # distinct states
        self.depth = 0
        self.cases = []         # decoded JSON objects printed by the spec
        self.violation = None   # name of a violated invariant / property of the SPEC
        self.log = ''
        self.wall = 0.0
        self.coverage = {}

    def merge_counts(self, other):
        self.generated += other.generated
        self.distinct += other.distinct


_scratch_root = None


def scratch_root():
    """One scratch directory per check process, removed at exit (nothing registered lives in /tmp)."""
    global _scratch_root
    if _scratch_root is None:
        import atexit
        _scratch_root = tempfile.mkdtemp(prefix='rbqlverif_')
        atexit.register(lambda: shutil.rmtree(_scratch_root, ignore_errors=True))
    return _scratch_root


def new_scratch(name):
    d = tempfile.mkdtemp(prefix=name + '_', dir=scratch_root())
    return d


def write_cfg(path, constants=None, init='Init', next_='Next', invariants=(), properties=(), constraints=(),
              postcondition=None, view=None, spec=None, deadlock=False):
    lines = []
    if spec:
        lines.append('SPECIFICATION %s' % spec)
    else:
        lines.append('INIT %s' % init)
        lines.append('NEXT %s' % next_)
    if constants:
        lines.append('CONSTANTS')
        for k, v in constants.items():
            lines.append('  %s = %s' % (k, v))
    for i in invariants:
        lines.append('INVARIANT %s' % i)
    for p in properties:
        lines.append('PROPERTY %s' % p)
    for c in constraints:
        lines.append('CONSTRAINT %s' % c)
    if postcondition:
        lines.append('POSTCONDITION %s' % postcondition)
    if view:
        lines.append('VIEW %s' % view)
    lines.append('CHECK_DEADLOCK %s' % ('TRUE' if deadlock else 'FALSE'))
    with open(path, 'w') as f:
        f.write('\n'.join(lines) + '\n')
    return path


def tla_value(v):
    """Python value -> TLA+ constant text for a cfg file."""
    if isinstance(v, bool):
        return 'TRUE' if v else 'FALSE'
    if isinstance(v, int):
        return str(v)
    if isinstance(v, str):
        return '"%s"' % v
    if isinstance(v, (list, tuple)):
        return '<<' + ', '.join(tla_value(x) for x in v) + '>>'
    if isinstance(v, (set, frozenset)):
        return '{' + ', '.join(tla_value(x) for x in sorted(v, key=repr)) + '}'
    raise ValueError(v)


_case_line = re.compile(r'^"(\{|\[).*"$')


def run_tlc(module, cfg_path, workers=16, env=None, timeout=3600, simulate=None, depth=None, seed=None,
            heap='16g', coverage=False, want_cases=True, expect_violation=False, case_sink=None, dfs=False):
    """Run TLC. Returns TlcResult. Raises TlcFailure on anything but 'no error' / 'invariant violated'.

    case_sink: optional callable(obj) called per emitted case instead of accumulating in memory.
    """
    meta = new_scratch('tlcmeta')
    out_path = os.path.join(meta, 'tlc.out')
    opts = '-Xmx%s -XX:+UseParallelGC -Djava.io.tmpdir=%s' % (heap, meta)      # TLC unpacks its standard modules into java.io.tmpdir: keep that inside the scratch directory
    if dfs:
        opts += ' -Dtlc2.tool.queue.IStateQueue=StateDeque'
    cmd = ['java'] + opts.split() + ['-cp', TLA_CP, 'tlc2.TLC', '-workers', str(workers), '-metadir', os.path.join(meta, 'states'),
                                     '-noGenerateSpecTE', '-config', cfg_path]
    if simulate is not None:
        sim = 'num=%d' % simulate
        cmd += ['-simulate', sim]
        if depth:
            cmd += ['-depth', str(depth)]
    if seed is not None:
        cmd += ['-seed', str(seed)]
    if coverage:
        cmd += ['-coverage', '1']
    cmd.append(module)
    e = dict(os.environ)
    e.pop('JAVA_TOOL_OPTIONS', None)
    if env:
        e.update({k: str(v) for k, v in env.items()})
    t0 = time.time()
    with open(out_path, 'w') as out:
        try:
            proc = subprocess.run(cmd, cwd=SPEC_DIR, env=e, stdout=out, stderr=subprocess.STDOUT, timeout=timeout)
        except subprocess.TimeoutExpired:
            raise TlcFailure('TLC timed out after %ss on %s (%s)' % (timeout, module, cfg_path))
    res = TlcResult()
    res.wall = time.time() - t0
    log_lines = []
    completed = False
    with open(out_path, 'r', errors='replace') as f:
        for line in f:
            line = line.rstrip('\n')
            if want_cases and _case_line.match(line):
                try:
                    obj = json.loads(json.loads(line))
                except ValueError:
                    log_lines.append(line[:300])
                    continue
                if case_sink is not None:
                    case_sink(obj)
                else:
                    res.cases.append(obj)
                continue
            if line.startswith('Model checking completed. No error has been found.'):
                completed = True
            # coverage output can be tens of thousands of lines: keep the head and every line that matters
            if len(log_lines) < 4000 or line.startswith(('Error', 'Finished', 'Model checking')) or 'states generated' in line:
                log_lines.append(line[:2000])
            m = re.match(r'^(\d+) states generated, (\d+) distinct states found', line)
            if m:
                res.generated = int(m.group(1))
                res.distinct = int(m.group(2))
            m = re.match(r'^The depth of the complete state graph search is (\d+)', line)
            if m:
                res.depth = int(m.group(1))
            m = re.match(r'^Error: Invariant (\S+) is violated', line)
            if m:
                res.violation = m.group(1)
            m = re.match(r'^Error: Action property (\S+) is violated', line)
            if m:
                res.violation = m.group(1)
            m = re.match(r'^Error: Action property line \d+, col \d+ to line \d+, col \d+ of module (\w+) is violated', line)
            if m:
                res.violation = 'step not allowed by ' + m.group(1) + ' (refinement)'
            if line.startswith('Error: Temporal properties were violated'):
                res.violation = 'temporal'
            m = re.match(r'^<(\w+) line \d+, col \d+ to line \d+, col \d+ of module (\w+)>: (\d+):(\d+)', line)
            if m:
                res.coverage[m.group(2) + '!' + m.group(1)] = int(m.group(4))
    res.log = '\n'.join(log_lines)
    shutil.rmtree(meta, ignore_errors=True)
    ok_end = completed or (simulate is not None and proc.returncode == 0)
    if res.violation is not None:
        if not expect_violation:
            raise TlcFailure('the specification itself violates %s (%s, %s):\n%s' % (res.violation, module, cfg_path, tail(res.log)))
        return res
    if simulate is not None and res.generated == 0:
        # simulation mode prints progress differently
        m = re.findall(r'(\d+) states checked', res.log)
        if m:
            res.generated = int(m[-1])
            res.distinct = int(m[-1])
    if expect_violation and not ok_end and 'Error:' in res.log and 'Parsing or semantic analysis failed' not in res.log and 'ConfigFileException' not in res.log:
        # a mutant may also break the model so badly that TLC cannot evaluate a next state / invariant: it is rejected all the same
        res.violation = 'evaluation error (mutant leaves the model ill-defined)'
        return res
    if not ok_end or proc.returncode != 0:
        raise TlcFailure('TLC failed on %s (%s), exit %s:\n%s' % (module, cfg_path, proc.returncode, tail(res.log)))
    return res


def run_apalache(module, init, next_, inv, length, timeout=900):
    """apalache-mc check; returns 'NoError' / 'Error' (a counterexample exists). Anything else is a machinery failure."""
    out = new_scratch('apalache')
    cmd = ['apalache-mc', 'check', '--init=' + init, '--next=' + next_, '--inv=' + inv, '--length=%d' % length, '--out-dir=' + out, module + '.tla']
    try:
        p = subprocess.run(cmd, cwd=SPEC_DIR, stdout=subprocess.PIPE, stderr=subprocess.STDOUT, universal_newlines=True, timeout=timeout)
    except subprocess.TimeoutExpired:
        raise TlcFailure('apalache-mc timed out on %s' % module)
    except OSError as e:
        raise TlcFailure('apalache-mc cannot be started: %s' % e)
    finally:
        shutil.rmtree(out, ignore_errors=True)
    m = re.search(r'The outcome is: (\w+)', p.stdout)
    if not m or m.group(1) not in ('NoError', 'Error'):
        raise TlcFailure('apalache-mc failed on %s:\n%s' % (module, '\n'.join(p.stdout.split('\n')[-25:])))
    return m.group(1)


def tail(s, n=40):
    ls = [l for l in s.split('\n') if not l.startswith('Linting of') and not l.startswith('Semantic processing') and not l.startswith('Parsing file')]
    return '\n'.join(ls[-n:])


def sany(module_path):
    cmd = ['java', '-cp', TLA_CP, 'tla2sany.SANY', module_path]
    p = subprocess.run(cmd, cwd=SPEC_DIR, stdout=subprocess.PIPE, stderr=subprocess.STDOUT, universal_newlines=True)
    ok = p.returncode == 0 and 'Semantic errors' not in p.stdout and 'Parse Error' not in p.stdout and '*** Errors' not in p.stdout
    return ok, p.stdout
