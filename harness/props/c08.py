"""C08 -- query meaning is invariant under spelling; string literals are opaque.

(A) TLC: QueryText -- word-level shallow parser machine; Parse(Render(q, sigma)) = Actions(q) for every abstract
    query and every spelling sigma within the bound (clause order, keyword case, FROM a / SET, comment lines,
    trailing semicolons, TOP vs LIMIT, ASC), literal contents (keywords, metacharacters) never influence the parse.
(B1) every rendering TLC produced is turned into text (varying white space) and parsed by the real
    cleanup_query / separate_string_literals / remove_redundant_input_table_name / separate_actions; the action
    map must be the one TLC computed.
(B2) end to end: engine cases whose literals hold hostile contents, each rendered under several spellings, run
    through rbql-py and rbql-js; every result must equal TLC's Ref (hence each other) and the literal must
    arrive verbatim.
"""
import json
import os
import random

from .. import core, tlcrun, par, impl, engine, node
from .. import enginecheck as ec


def kwtext(name, c):
    return name if c == 0 else name.lower() if c == 1 else name.capitalize()


def word_text(w):
    t = w[0]
    if t == 'kw':
        return kwtext(w[1], w[2])
    if t == 'w':
        return w[1]
    if t == 'num':
        return str(w[1])
    if t == 'lit':
        q = "'" if w[1] == 'sq' else '"'
        return q + ' '.join(w[2]) + q
    if t == 'semi':
        return ';'
    raise ValueError(w)


def span_text(words):
    return ' '.join(word_text(w) for w in words)


def render_text(toks, rnd):
    lines = []
    cur = ''
    for w in toks:
        if w[0] == 'comment':
            if cur:
                lines.append(cur)
            lines.append(rnd.choice(['# select * where order by', '#comment', '   # limit 1; join b on a1 == b1']))
            cur = ''
            continue
        sep = rnd.choice([' ', ' ', '  ', '\t', ' \t ', '\n'])
        if w[0] == 'semi':
            sep = rnd.choice(['', ' '])
        piece = word_text(w)
        if cur == '':
            cur = piece if not lines or True else piece
        elif sep == '\n':
            lines.append(cur)
            cur = piece
        else:
            cur += sep + piece
    if cur:
        lines.append(cur)
    return '\n'.join(lines)


def _parse_chunk(items):
    rbql, eng, rcsv, cu = impl.load()
    needed = ['cleanup_query', 'separate_string_literals', 'separate_actions', 'combine_string_literals', 'remove_redundant_input_table_name', 'default_statement_groups']
    if not all(hasattr(eng, n) for n in needed):
        return [(k, None) for k, _, _ in items]     # "when present": absence is not a failure
    out = []
    for k, case, seed in items:
        rnd = random.Random(seed)
        text = render_text(case['toks'], rnd)
        sig = None
        try:
            clean = eng.cleanup_query(text)
            fmt, lits = eng.separate_string_literals(clean)
            fmt = eng.remove_redundant_input_table_name(fmt)
            groups = [g for g in eng.default_statement_groups if g != [eng.FROM]]
            acts = eng.separate_actions(groups, fmt)

            def norm(span):
                return ' '.join(eng.combine_string_literals(span, lits).split())
            head = 'SELECT' if 'SELECT' in acts else 'UPDATE' if 'UPDATE' in acts else ''
            got = {'head': head, 'hspan': norm(acts[head]['text']) if head else '', 'top': 0, 'distinct': '', 'desc': '', 'rest': []}
            if head == 'SELECT':
                if 'top' in acts['SELECT']:
                    got['top'] = acts['SELECT']['top'] + 1
                if 'distinct_count' in acts['SELECT']:
                    got['distinct'] = 'count'
                elif 'distinct' in acts['SELECT']:
                    got['distinct'] = 'uniq'
            for st, params in acts.items():
                if st in ('SELECT', 'UPDATE'):
                    continue
                if st == 'LIMIT':
                    got['top'] = int(params['text']) + 1
                    continue
                if st == 'ORDER BY' and params.get('reverse'):
                    got['desc'] = 'desc'
                got['rest'].append([st, norm(params['text']), params.get('join_subtype', '')])
            got['rest'].sort()
            want = {'head': case['head'], 'hspan': span_text(case['hspan']), 'top': case['top'], 'distinct': case['distinct'], 'desc': case['desc'],
                    'rest': sorted([e[0], span_text(e[1]), e[2]] for e in case['rest'])}
            if got != want:
                diff = [f for f in want if got.get(f) != want[f]]
                sig = {'impl': 'py', 'entry': 'separate_actions', 'what': 'action map differs', 'fields': ','.join(diff), 'got': got, 'want': want, 'query': text}
        except Exception as e:  # noqa
            sig = {'impl': 'py', 'entry': 'separate_actions', 'what': 'parser raised', 'got': type(e).__name__ + ': ' + str(e)[:150], 'query': text}
        out.append((k, sig))
    return out


def parser_binding(run, heads, clauses, maxclauses):
    d = tlcrun.new_scratch('c08')
    lines = ['INIT Init', 'NEXT Next', 'CONSTANTS', '  Heads <- %s' % heads, '  Clauses <- %s' % clauses, '  MaxClauses = %d' % maxclauses, '  LitContents = {}',
             '  EmitCases = TRUE', '  MUT = ""', 'INVARIANT SpellingInvariant', 'INVARIANT Emit', 'CHECK_DEADLOCK FALSE']
    cfg = os.path.join(d, 'qt.cfg')
    open(cfg, 'w').write('\n'.join(lines) + '\n')
    res = tlcrun.run_tlc('MC_QueryText', cfg, coverage=(run.tier != 'quick'), timeout=7200, heap='24g')
    run.add_tlc('MC_QueryText:%s x %s x <=%d clauses' % (heads, clauses, maxclauses), res)
    items = [(k, c, run.seed + k) for k, c in enumerate(res.cases)]
    out = par.pmap(_parse_chunk, items, chunk=2000)
    present = True
    for (k, case, seed), (_, sig) in zip(items, out):
        run.traces += 1
        run.count(['parse', json.dumps(case['toks'])], nontrivial=len(case['rest']) >= 2)
        if sig:
            run.violation(sig, {'kind': 'parse_case', 'case': case, 'seed': seed})
    run.sample({'rendering': render_text(res.cases[len(res.cases) // 2]['toks'], random.Random(1)), 'actions': {k: res.cases[len(res.cases) // 2][k] for k in ('head', 'top', 'distinct', 'desc')}})
    run.notes.setdefault('renderings', 0)
    run.notes['renderings'] += len(res.cases)


def _spell_chunk(args):
    cases, nspell, seed = args
    mods = impl.load()
    out = []
    for tid, case in cases:
        key = ec.case_key(case)
        sigs = []
        texts = []
        for j in range(nspell):
            sp = engine.Spelling('%s/%d/%d' % (key, seed, j)) if j else engine.Plain()
            q = engine.render_query(case, sp, 'py')
            texts.append(q)
            obs = engine.run_case_py(mods, case, q)
            for sig in engine.judge(case, obs, q):
                sigs.append(dict(sig, spelling=j, plain_query=texts[0]))
        out.append((tid, sigs, texts))
    return out


def spelling_family(run, label, queries, recsA, maxA, recsB='R_none', maxB=0, hdrmodes=(False, True), nspell=5, js=True):
    d = tlcrun.new_scratch('c08e')
    cfg = ec.engine_cfg(os.path.join(d, label + '.cfg'), queries, recsA, recsB, maxA, maxB, hdrmodes, (0,))
    res = tlcrun.run_tlc('MC_Engine', cfg, timeout=7200, heap='24g')
    run.add_tlc('MC_Engine:' + label, res)
    cases = list(enumerate(res.cases, 1))
    chunks = [(c, nspell, run.seed) for c in par.chunks(cases, 200)]
    import multiprocessing
    with multiprocessing.get_context('fork').Pool(par.NPROC) as pool:
        outs = pool.map(_spell_chunk, chunks)
    bytid = dict(cases)
    for part in outs:
        for tid, sigs, texts in part:
            run.traces += nspell
            run.count(['spell', ec.case_key(bytid[tid])], nontrivial=len(bytid[tid]['A']) >= 1 and bool(bytid[tid]['expect']['out']), n=nspell)
            for sig in sigs:
                run.violation(sig, {'kind': 'engine_case', 'case': bytid[tid], 'opts': {'spelling': True}})
            if len(run.samples) < 6 and tid % 53 == 0:
                run.sample({'spellings_of_one_query': texts[:3]})
    if js:
        reqs, meta = [], []
        for tid, case in cases:
            for j in range(2):
                sp = engine.Spelling('%s/js/%d' % (ec.case_key(case), j)) if j else engine.Plain()
                q = engine.render_query(case, sp, 'js')
                reqs.append(engine.js_request(case, q))
                meta.append((tid, q))
        resp = node.run_batch(reqs, nproc=par.NPROC)
        for (tid, q), r in zip(meta, resp):
            run.traces += 1
            for sig in engine.judge(bytid[tid], engine.js_observation(r), q):
                run.violation(dict(sig, impl='js'), {'kind': 'engine_case_js', 'case': bytid[tid]})


def check(run):
    quick = run.tier == 'quick'
    run.rule = ('(B1) rendering = (abstract query of a head and <= 3 further clauses in any order, keyword case, FROM a / SET, comment lines, trailing semicolons, TOP vs LIMIT, ASC/DESC, literals holding keywords and metacharacters) '
                'enumerated by TLC with the action map, parsed by the real shallow parser; (B2) engine case with hostile literal contents (" where select ", "order by a1 desc", "*,=#;()[]", "a1 b1 NR a[1]", quotes and backslash, '
                '" left join b on ", "limit 1;", "with (header)") in SELECT items, WHERE, ORDER BY key, UPDATE rhs, UNNEST list, GROUP BY key, rendered under 5 spellings (rbql-py) and 2 (rbql-js), compared with Ref; '
                'non-trivial = rendering with >= 2 further clauses / case with output')
    run.assumptions = ['ASC/DESC stay at the end of the ORDER BY span (as the statement lists)', 'a literal containing an a.ident token with a header is a recorded finding (D9)']
    parser_binding(run, 'HeadsQ' if quick else 'HeadsAll', 'ClausesQ' if quick else 'ClausesAll', 3 if quick else 3)
    spelling_family(run, 'C08-hostile-literals', 'Q_C08', 'R_2x2', 2, nspell=4 if quick else 8)
    spelling_family(run, 'C08-hostile-literals-join', 'Q_C08join', 'R_2x2', 1, recsB='R_2x2', maxB=2, nspell=3 if quick else 6)
    spelling_family(run, 'C08-clause-order', 'Q_C02joinok' if not quick else 'Q_C02mut', 'R_2x2', 2, recsB='R_2x2' if not quick else 'R_none', maxB=2 if not quick else 0, hdrmodes=(False,), nspell=4 if quick else 8)
    spelling_family(run, 'C08-attr-literal', 'Q_C08attr', 'R_2x2', 1, nspell=2)
    run.exhaustive = True


def replay(path):
    with open(path) as f:
        rep = json.load(f)
    c = rep['case']
    if c['kind'] == 'parse_case':
        run = core.Run('C08', 'quick', 0)
        for k, sig in _parse_chunk([(0, c['case'], c['seed'])]):
            run.traces += 1
            if sig:
                run.violation(sig, c)
        return run.finish()
    return ec.replay_file('C08', path)
