"""EXT -- behaviour beyond the 20 listed properties that the specification has grown to cover.

Not a claimed property: `./check EXT` is an extra; a mismatch here is printed as EXTENSION-MISMATCH and makes the
command exit 1, but it is never reported as a VIOLATION of a listed property.

1. join-table lookup (rbql_csv.find_table_path): the id of the query text is tried as a path, then relative to the
   input file's directory, then as a key of ~/.rbql_table_names -- Frontends!ResolveTable, judged by TLC.
4. the repository's own scenario file (test/rbql_unit_tests.json) run against the tree, recorded and judged by the TLA+ monitors (EngineTrace), plus
   the scenarios' own expectations in both ports (the pinned suite never executes the tree).
6. FROM <table>: the input table named in the query text and resolved through a ListTableRegistry (no context iterator): the C13 select cases
   against Ref; no FROM / unknown table -> parsing error before anything is written.
5. Pipeline.tla (query_csv at the level of text, see C13) through rbql-js query_csv, stream and bulk read.
3. rbql-js file front-ends (rbql_csv.query_csv stream / bulk, node cli_rbql.js): the C13 cases in JavaScript syntax against Stringify / CliOk.
2. user init code (engine): runs once after set_header and before the first get_record; functions it defines are
   visible to every clause; an exception in it is reported as such -- RbqlEngine (q.init, action RunInit).
"""
import json
import os
import re
import shutil
import subprocess
import sys
import tempfile

from .. import core, tlcrun, impl, engine, frontends
from .. import enginecheck as ec

LOOKUP = r'''
import sys, os, json
sys.path.insert(0, %(pkg)r)
import rbql
from rbql import rbql_csv
assert rbql.__file__.startswith(%(pkg)r)
spec = json.load(sys.stdin)
os.chdir(spec['cwd'])
out = os.path.join(spec['cwd'], 'out.csv')
warnings = []
try:
    rbql_csv.query_csv('select b2 join %%s on a1 == b1' %% spec['table_id'], spec['input'], ',', 'quoted', out, ',', 'quoted', 'utf-8', warnings, False)
    rows = [l for l in open(out).read().split('\n') if l]
    print(json.dumps({'found': rows[0] if rows else 'empty'}))
except Exception as e:
    print(json.dumps({'found': 'none' if 'Unable to find join table' in str(e) else 'error: ' + str(e)[:200]}))
'''


def table_lookup(run):
    traces = []
    info = {}
    tid = 0
    root = tempfile.mkdtemp(prefix='rbqlverif_lookup_')
    try:
        for direct in (False, True):
            for maindir in (False, True):
                for index in (False, True):
                    for absid in (False, True):
                        tid += 1
                        d = os.path.join(root, 'c%d' % tid)
                        home = os.path.join(d, 'home')
                        cwd = os.path.join(d, 'cwd')
                        indir = os.path.join(d, 'data')
                        elsewhere = os.path.join(d, 'elsewhere')
                        for x in (home, cwd, indir, elsewhere):
                            os.makedirs(x)
                        inp = os.path.join(indir, 'in.csv')
                        open(inp, 'w').write('k,1\n')
                        if absid:
                            table_id = os.path.join(elsewhere, 'J.csv')
                            if direct:
                                open(table_id, 'w').write('k,direct\n')
                            # relative lookups do not apply to an absolute id; a file of that name in the input directory must be ignored
                            if maindir:
                                open(os.path.join(indir, 'J.csv'), 'w').write('k,maindir\n')
                        else:
                            table_id = 'J.csv'
                            if direct:
                                open(os.path.join(cwd, 'J.csv'), 'w').write('k,direct\n')
                            if maindir:
                                open(os.path.join(indir, 'J.csv'), 'w').write('k,maindir\n')
                        if index:
                            target = os.path.join(elsewhere, 'indexed.csv')
                            open(target, 'w').write('k,index\n')
                            open(os.path.join(home, '.rbql_table_names'), 'w').write('other\t/nonexistent\n%s\t%s\n' % (table_id, target))
                        env = dict(os.environ, HOME=home, PYTHONDONTWRITEBYTECODE='1', PYTHONWARNINGS='ignore')
                        p = subprocess.run(['/venv/bin/python', '-c', LOOKUP % {'pkg': os.path.join(impl.REPO, 'rbql-py')}], input=json.dumps({'cwd': cwd, 'input': inp, 'table_id': table_id}).encode(),
                                           stdout=subprocess.PIPE, stderr=subprocess.PIPE, env=env, timeout=120)
                        if p.returncode != 0:
                            core.machinery_failure('lookup subprocess failed: ' + p.stderr.decode()[-400:])
                        found = json.loads(p.stdout.decode().strip().split('\n')[-1])['found']
                        traces.append({'tid': tid, 'direct': direct, 'maindir': maindir, 'index': index, 'abs': absid, 'hasdir': True, 'found': found})
                        info[tid] = traces[-1]
                        run.traces += 1
                        run.count(['lookup', direct, maindir, index, absid], nontrivial=(direct + maindir + index) >= 2)
    finally:
        shutil.rmtree(root, ignore_errors=True)
    run.sample({'lookup': traces[5]})
    rej = frontends.validate(run, 'lookup', traces, 'find_table_path')
    for t in rej:
        run.violation({'what': 'join-table lookup differs from ResolveTable', 'case': json.dumps(info[t])}, {'kind': 'lookup', 'case': info[t]})


def _js_cli(args, stdin=None):
    p = subprocess.run(['node', os.path.join(impl.REPO, 'rbql-js', 'cli_rbql.js')] + args, input=stdin, stdout=subprocess.PIPE, stderr=subprocess.PIPE, cwd='/', timeout=120)
    return p.returncode, p.stdout.decode('utf-8', 'replace'), p.stderr.decode('utf-8', 'replace')


def _js_cli_chunk(items):
    from .c13 import stderr_kinds, parse_text, ERRNAME
    out = []
    for tid, qtext, inp, hashdr, want_rows, want_err, joined in items:
        for mode in ('file', 'pipe'):
            if mode == 'pipe' and joined:
                continue
            args = ['--query', qtext, '--delim', ',', '--policy', 'quoted'] + (['--with-headers'] if hashdr else [])
            if mode == 'file':
                o2 = inp + '.cli_out'
                rc, so, se = _js_cli(args + ['--input', inp, '--output', o2])
                text = open(o2).read() if os.path.exists(o2) else ''
                clean = so == ''
            else:
                rc, so, se = _js_cli(args, stdin=open(inp, 'rb').read())
                text, clean = so, True
            is_table = True if want_err else (clean and parse_text(text) == want_rows)
            out.append({'tid': '%d.%s' % (tid, mode), 'exit': rc, 'stdout_is_table': bool(is_table), 'stderr_kinds': stderr_kinds(se), 'outcome': 'error' if want_err else 'ok', 'q': qtext,
                        'stderr': se[:300], 'stdout': text[:300], 'errtype_ok': (not want_err) or ('Error [%s]' % ERRNAME.get(want_err, want_err)) in se, 'want_err': want_err})
    return out


def js_frontends(run, label, queries, recsA, maxA, recsB='R_none', maxB=0, cli_every=11):
    """rbql-js file front-ends: the C13 cases rendered into JavaScript, through rbql_csv.query_csv (stream and bulk read) and `node cli_rbql.js`
    (file -> file and stdin -> stdout); results compared with TLC's Stringify rows, command-line runs judged by the CliOk monitor."""
    from .c13 import csv_text, parse_text, expected_text_rows
    from .. import node, par
    d = tlcrun.new_scratch('extjs')
    cfg = ec.engine_cfg(os.path.join(d, label + '.cfg'), queries, recsA, recsB, maxA, maxB, (False, True), (0,))
    res = tlcrun.run_tlc('MC_Engine', cfg, timeout=3600)
    run.add_tlc('MC_Engine:' + label, res)
    root = tempfile.mkdtemp(prefix='rbqlverif_extjs_')
    try:
        reqs, meta, cli_items = [], [], []
        for tid, case in enumerate(res.cases, 1):
            exp = case['expect']
            want_err = exp['err'][0]['cls'] if exp['err'] else None
            if (not exp['textonly'] and not want_err) or (exp.get('alt') or {}).get('has'):
                continue
            qtext = engine.render_query(case, engine.Spelling(ec.case_key(case) + 'extjs'), 'js')
            A, B = engine.table_py(case['A']), engine.table_py(case['B'])
            joined = case['q']['join'] != 'none'
            hdrA = list(case['hdrA']) if case['hasHdr'] else None
            hdrB = list(case['hdrB']) if case['hasHdr'] else None
            cd = os.path.join(root, 'c%d' % tid)
            os.mkdir(cd)
            inp = os.path.join(cd, 'in.csv')
            with open(inp, 'w') as f:
                f.write(csv_text(A, hdrA))
            if joined:
                for name in ('B', 'b'):
                    with open(os.path.join(cd, name), 'w') as f:
                        f.write(csv_text(B, hdrB))
            want_rows = expected_text_rows(case) if not want_err else None
            for bulk in (False, True):
                reqs.append({'op': 'query_csv', 'query': qtext, 'input': inp, 'output': os.path.join(cd, 'out%d.csv' % bulk), 'with_headers': bool(case['hasHdr']), 'bulk': bulk})
                meta.append((tid, case, qtext, want_rows, want_err, bulk))
            if tid % cli_every == 0:
                cli_items.append((tid, qtext, inp, bool(case['hasHdr']), want_rows, want_err, joined))
        resp = node.run_batch(reqs, nproc=par.NPROC)
        for (tid, case, qtext, want_rows, want_err, bulk), r in zip(meta, resp):
            run.traces += 1
            run.count(['extjs', ec.case_key(case), bulk], nontrivial=len(case['A']) >= 2)
            got_err = engine.JS_ERR.get(r['error']['cls'], r['error']['cls']) if r.get('error') else None
            base = {'impl': 'js', 'frontend': 'query_csv' + ('-bulk' if bulk else ''), 'query': qtext}
            if (got_err or None) != (want_err or None):
                run.violation(dict(base, what='outcome', got=(r.get('error') or {}).get('msg', '')[:160] if got_err else None, want=want_err), {'kind': 'js_frontend', 'case': case})
            elif got_err is None and parse_text(r['text']) != want_rows:
                run.violation(dict(base, what='result rows', got=parse_text(r['text']), want=want_rows), {'kind': 'js_frontend', 'case': case})
        clis = [c for part in par.pmap(_js_cli_chunk, cli_items, chunk=4) for c in ([part] if isinstance(part, dict) else part)]
    finally:
        shutil.rmtree(root, ignore_errors=True)
    if clis:
        run.traces += len(clis)
        run.sample({'js_cli_run': {k: clis[len(clis) // 2][k] for k in ('q', 'exit', 'stderr_kinds', 'outcome', 'stdout')}})
        rej = frontends.validate(run, 'cli', [{k: c[k] for k in ('tid', 'exit', 'stdout_is_table', 'stderr_kinds', 'outcome')} for c in clis], label + '-jscli')
        for c in clis:
            if c['tid'] in rej:
                run.violation({'impl': 'js', 'frontend': 'cli', 'what': 'node cli_rbql.js run rejected by the CliOk monitor', 'exit': c['exit'], 'outcome': c['outcome'], 'stderr': c['stderr'][:160], 'query': c['q']},
                              {'kind': 'js_cli', 'tid': c['tid']})
            elif not c['errtype_ok']:
                run.violation({'impl': 'js', 'frontend': 'cli', 'what': 'error type on stderr', 'got': c['stderr'][:160], 'want': c['want_err'], 'query': c['q']}, {'kind': 'js_cli', 'tid': c['tid']})
    run.notes.setdefault('js_cli_runs', 0)
    run.notes['js_cli_runs'] += len(clis)


def _proj(v):
    if isinstance(v, float):
        v = round(v, 3)
        return ['i', int(v)] if v == int(v) else ['f', v]
    if isinstance(v, bool):
        return ['b', v]
    if isinstance(v, int):
        return ['i', v]
    if v is None:
        return ['n']
    if isinstance(v, str):
        return ['s', [ord(c) for c in v]]
    if isinstance(v, (list, tuple)):
        return ['l', [_proj(x) for x in v]]
    return ['?', str(v)]


def _reproj(p):
    if p[0] == 'f':
        return _proj(float(p[1])) if p[1] is not None else ['f', None]
    if p[0] == 'l':
        return ['l', [_reproj(x) for x in p[1]]]
    return p


def _vary(query, rnd):
    for i in reversed(range(10)):
        for t in 'ab':
            parts = query.split('%s%d' % (t, i))
            query = parts[0] + ''.join((('%s%d' % (t, i)) if rnd.random() < 0.5 else ('%s[%d]' % (t, i))) + x for x in parts[1:])
    return query


def _scenario_chunk(items):
    """The repository's own scenario file run against the TREE behind recording iterator / writer objects."""
    import copy
    import random
    mods = impl.load()
    rbql, eng, rcsv, cu = mods
    RecIterator, RecWriter, Registry = engine.make_recorders(eng)
    out = []
    for tid, sc, variant in items:
        query = sc.get('query_python') or sc.get('query_python_3')
        if variant and sc.get('randomly_replace_var_names', True):
            query = _vary(query, random.Random('%s/%d' % (sc['test_name'], variant)))
        A = copy.deepcopy(sc['input_table'])
        B = copy.deepcopy(sc.get('join_table'))
        snapA, snapB = copy.deepcopy(A), copy.deepcopy(B)
        events = []
        it = RecIterator(A, sc.get('input_column_names'), events, 'a')
        wr = RecWriter(events, 0, [(A, snapA)] + ([(B, snapB)] if B is not None else []))
        reg = Registry(B, sc.get('join_column_names'), events) if B is not None else None
        warnings = []
        err = None
        try:
            eng.query(query, it, wr, warnings, reg, user_init_code=sc.get('python_init_code', ''))
        except Exception as e:  # noqa
            err = rbql.exception_to_error_info(e)
        evs = [{'e': e['e'], 't': e.get('t', 'w'), 'end': bool(e.get('end', False)), 'ok': bool(e.get('ok', True))} for e in events]
        errcls = {'query parsing': 'parsing', 'query execution': 'runtime', 'IO handling': 'io'}.get(err[0], err[0]) if err else ''
        trace = {'tid': tid, 'outcome': 'error' if err else 'ok', 'errcls': errcls, 'events': evs, 'streaming': False, 'pulllimit': 0, 'alias': bool(wr.alias),
                 'src_changed': bool(wr.src_changed or A != snapA or B != snapB)}
        # the scenario's own oracle
        exp_err = sc.get('expected_error') or sc.get('expected_error_py') or sc.get('expected_error_py_3')
        problems = []
        if (exp_err is not None) != (err is not None):
            problems.append('outcome: expected error %r, got %r' % (exp_err, err))
        elif exp_err is not None:
            if (err[1] != exp_err) if sc.get('expected_error_exact') else (exp_err not in err[1]):
                problems.append('error text: expected %r, got %r' % (exp_err, err[1]))
        else:
            if [[_proj(c) for c in r] for r in wr.rows] != [[_proj(c) for c in r] for r in sc['expected_output_table']]:
                problems.append('output table: expected %r, got %r' % (sc['expected_output_table'][:4], wr.rows[:4]))
            if (wr.header or []) != sc.get('expected_output_header', []):
                problems.append('output header: expected %r, got %r' % (sc.get('expected_output_header', []), wr.header))
            got_w = sorted('inconsistent input records' if 'Number of fields in "input" table is not consistent' in w else w for w in warnings)
            if got_w != sorted(sc.get('expected_warnings', [])):
                problems.append('warnings: expected %r, got %r' % (sc.get('expected_warnings', []), warnings))
        out.append((tid, trace, problems, query))
    return out


def repo_scenarios(run):
    """test/rbql_unit_tests.json (109 scenarios the pinned suite only ever runs against the installed copy) run against the tree:
    (1) every execution recorded at the iterator / writer interface and judged by the TLA+ monitors (EngineTrace: writer protocol, finish iff ok,
    no pull after a refusal, B read completely before A, nothing written after a parsing error, no aliasing, sources unchanged);
    (2) the scenario's own expectation (table, header, warnings, error text), Python and JavaScript."""
    from .. import node, par
    path = os.path.join(impl.REPO, 'test', 'rbql_unit_tests.json')
    with open(path) as f:
        scenarios = json.load(f)
    items = []
    for sc in scenarios:
        if not (sc.get('query_python') or sc.get('query_python_3')) or sc.get('normalize_column_names', True) is False:
            continue
        if float(sc.get('minimal_python_version', 2.7)) > 3.12:
            continue
        for variant in range(4):
            items.append((len(items) + 1, sc, variant))
    res = par.pmap(_scenario_chunk, items, chunk=8)
    traces = []
    for (tid, sc, variant), (_, trace, problems, query) in zip(items, res):
        run.traces += 1
        run.count(['scenario', sc['test_name'], variant], nontrivial=True)
        traces.append(trace)
        for p in problems:
            run.violation({'impl': 'py', 'what': 'repository scenario fails on the tree', 'scenario': sc['test_name'], 'detail': p[:300], 'query': query}, {'kind': 'scenario', 'name': sc['test_name']})
    ec.validate_engine_traces(run, traces, 'repository-scenarios')
    run.sample({'repository_scenario_trace': {'scenario': items[7][1]['test_name'], 'events': [e['e'] + ':' + e['t'] for e in traces[7]['events']][:12]}})
    # JavaScript
    reqs, meta = [], []
    for sc in scenarios:
        if not sc.get('query_js'):
            continue
        reqs.append({'op': 'query_table', 'query': sc['query_js'], 'input': sc['input_table'], 'join': sc.get('join_table'), 'input_header': sc.get('input_column_names'), 'join_header': sc.get('join_column_names'),
                     'user_init': sc.get('js_init_code', ''), 'normalize': sc.get('normalize_column_names', True)})
        meta.append(sc)
    for sc, r in zip(meta, node.run_batch(reqs, nproc=par.NPROC)):
        run.traces += 1
        run.count(['scenario-js', sc['test_name']], nontrivial=True)
        exp_err = sc.get('expected_error') or sc.get('expected_error_js')
        problems = []
        got_err = r.get('error')
        if (exp_err is not None) != (got_err is not None):
            problems.append('outcome: expected error %r, got %r' % (exp_err, got_err))
        elif exp_err is not None:
            # newer V8 versions name the offending token (Unexpected identifier 'and'): the scenario texts predate that
            got_err = dict(got_err, msg=re.sub(r"Unexpected identifier '\w+'", 'Unexpected identifier', got_err['msg']))
            if (got_err['msg'] != exp_err) if sc.get('expected_error_exact') else (exp_err not in got_err['msg']):
                problems.append('error text: expected %r, got %r' % (exp_err, got_err['msg']))
        else:
            if [[_reproj(c) for c in row] for row in r['out']] != [[_proj(c) for c in row] for row in sc['expected_output_table']]:
                problems.append('output table: expected %r, got %r' % (sc['expected_output_table'][:4], r['out'][:4]))
            if (r.get('header') or []) != sc.get('expected_output_header', []):
                problems.append('output header: expected %r, got %r' % (sc.get('expected_output_header', []), r.get('header')))
            if not r.get('src_intact', True):
                problems.append('caller arrays modified')
        for p in problems:
            run.violation({'impl': 'js', 'what': 'repository scenario fails on the tree', 'scenario': sc['test_name'], 'detail': p[:300], 'query': sc['query_js']}, {'kind': 'scenario', 'name': sc['test_name']})


def js_pipeline(run, label, alphabet, maxlen, header):
    """Pipeline.tla (query_csv at the level of text) through rbql-js query_csv, stream and bulk read."""
    from .. import node, par, messages
    from ..text import s as S
    d = tlcrun.new_scratch('extp')
    consts = {'DlmA': 44, 'DlmB': 0, 'EmitCases': 'TRUE', 'Recs': '{}', 'MaxRecs': 0, 'WPolicies': '{}', 'LineSeps': '{}',
              'PAlphabet': '{' + ', '.join(map(str, alphabet)) + '}', 'PMaxLen': maxlen, 'InPolicies': '{"simple", "quoted", "quoted_rfc"}',
              'OutPolicies': '{"simple", "quoted", "quoted_rfc"}', 'OutDlm': 59, 'WithHeader': 'TRUE' if header else 'FALSE', 'PEnc': '"utf-8"', 'PQueries': '{1, 2}'}
    cfg = tlcrun.write_cfg(os.path.join(d, label + '.cfg'), constants=consts, init='PInit', next_='PNext', invariants=['ReReadable', 'PEmit'])
    res = tlcrun.run_tlc('Pipeline', cfg, timeout=7200, heap='24g')
    run.add_tlc('Pipeline:' + label, res)
    root = tempfile.mkdtemp(prefix='rbqlverif_extp_')
    try:
        reqs, meta = [], []
        texts = {}
        for case in res.cases:
            key = tuple(case['text'])
            if key not in texts:
                texts[key] = os.path.join(root, 'in%d.csv' % len(texts))
                with open(texts[key], 'wb') as f:
                    f.write(S(case['text']).encode('utf-8'))
            for bulk in (False, True):
                reqs.append({'op': 'query_csv', 'query': 'select *' if case['qk'] == 1 else 'select NR, a1', 'input': texts[key], 'output': os.path.join(root, 'o%d.csv' % len(reqs)),
                             'in_dlm': S(case['indlm']), 'in_policy': case['ipol'], 'out_dlm': ';', 'out_policy': case['opol'], 'with_headers': bool(case['header']), 'bulk': bulk})
                meta.append((case, bulk))
        resp = node.run_batch(reqs, nproc=par.NPROC)
        for (case, bulk), r in zip(meta, resp):
            run.traces += 1
            run.count(['jspipe', case['text'], case['ipol'], case['opol'], case['qk'], bulk], nontrivial=len(case['text']) >= 2)
            base = {'impl': 'js', 'frontend': 'query_csv' + ('-bulk' if bulk else ''), 'in_policy': case['ipol'], 'out_policy': case['opol'], 'qk': case['qk'], 'header': case['header']}
            err = r.get('error')
            sig = None
            if case['hdrerr']:
                if not err or engine.JS_ERR.get(err['cls'], err['cls']) != 'runtime' or messages.near('record', err['msg']) != case['hdrerr']:
                    sig = dict(base, what='record wider / narrower than the header under select *: runtime error at that record', got=err, want=case['hdrerr'])
            elif case['rderr']:
                if not err or engine.JS_ERR.get(err['cls'], err['cls']) != 'io' or messages.record_and_line(err['msg']) != (case['errnr'], case['errnl']):
                    sig = dict(base, what='malformed input: IO-handling error citing record and line', got=err, want=[case['errnr'], case['errnl']])
            elif err:
                sig = dict(base, what='unexpected error', got=err['msg'][:160])
            else:
                ks = messages.kinds(r.get('warnings'))
                gq = [k[1] for k in ks if k[0] == 'quoting']
                gr = [k[1] for k in ks if k[0] == 'ragged']
                if r['text'] != S(case['out']):
                    sig = dict(base, what='output text', got=r['text'], want=S(case['out']))
                elif any(k[0] == 'bom' for k in ks) != case['bom']:
                    sig = dict(base, what='BOM warning', got=r.get('warnings'))
                elif (gq[0] if gq else 0) != case['firstdef']:
                    sig = dict(base, what='quoting warning', got=gq, want=case['firstdef'])
                elif (gr[0] if gr else []) != list(case['ragged']):
                    sig = dict(base, what='field-count warning', got=gr, want=case['ragged'])
                elif any(k[0] == 'separator' for k in ks) != case['wdelim']:
                    sig = dict(base, what='separator warning', got=r.get('warnings'), want=case['wdelim'])
            if sig:
                run.violation(sig, {'kind': 'js_pipeline', 'case': case})
    finally:
        shutil.rmtree(root, ignore_errors=True)


def _from_chunk(items):
    import copy
    mods = impl.load()
    rbql, eng, rcsv, cu = mods
    RecIterator, RecWriter, Registry = engine.make_recorders(eng)
    out = []
    for tid, case, mode in items:
        A, B = engine.table_py(case['A']), engine.table_py(case['B'])
        hdrA = list(case['hdrA']) if case['hasHdr'] else None
        hdrB = list(case['hdrB']) if case['hasHdr'] else None
        infos = [eng.ListTableInfo('inp', A, hdrA), eng.ListTableInfo('B', B, hdrB), eng.ListTableInfo('b', B, hdrB), eng.ListTableInfo('unused', [], None)]
        c2 = dict(case, from_table={'ok': 'inp', 'missing': None, 'wrong': 'nosuch'}[mode])
        qtext = engine.render_query(c2, engine.Spelling(ec.case_key(case) + 'from'), 'py')
        events = []
        wr = RecWriter(events, 0, [(A, copy.deepcopy(A)), (B, copy.deepcopy(B))])
        obs = {'err': None}
        try:
            eng.query(qtext, None, wr, [], eng.ListTableRegistry(infos), user_init_code='')
        except Exception as e:  # noqa
            obs['err'] = engine.project_error(eng, e)
        obs.update(rows=[[engine.project_value(c) for c in r] for r in wr.rows], hdr=wr.header, alias=wr.alias, src_changed=wr.src_changed)
        if mode == 'ok':
            sigs = engine.judge(case, obs, qtext)
        else:
            # FromOk: without a context input a query must name an existing table, otherwise a parsing error before anything is written
            sigs = [] if (obs['err'] and obs['err']['cls'] == 'parsing' and not wr.rows) else [{'impl': 'py', 'what': 'FROM ' + mode + ': parsing error expected', 'got': obs['err'], 'query': qtext}]
        out.append((tid, sigs))
    return out


def from_tables(run):
    """Input table named in the query text (FROM <id>) and resolved through a ListTableRegistry, no context iterator: the C13 select cases must give
    TLC's result; a query without FROM, or naming an unknown table, is a parsing error."""
    from .. import par
    d = tlcrun.new_scratch('extfrom')
    items = []
    for fam, recs, ra, rb, mb in (('Q_C13', 'R_2x2p', 2, 'R_none', 0), ('Q_C13join', 'R_2x2', 2, 'R_2x2', 1)):
        cfg = ec.engine_cfg(os.path.join(d, fam + '.cfg'), fam, recs, rb, ra, mb, (False, True), (0,))
        res = tlcrun.run_tlc('MC_Engine', cfg, timeout=3600)
        run.add_tlc('MC_Engine:EXT-from:' + fam, res)
        for case in res.cases:
            if case['q']['kind'] != 'select' or (case['expect'].get('alt') or {}).get('has'):
                continue
            items.append((len(items), case, 'ok'))
            if len(items) % 25 == 0:
                items.append((len(items), case, 'missing'))
                items.append((len(items), case, 'wrong'))
    for (tid, case, mode), (_, sigs) in zip(items, par.pmap(_from_chunk, items, chunk=150)):
        run.traces += 1
        run.count(['from', ec.case_key(case), mode], nontrivial=len(case['A']) >= 1)
        for sig in sigs:
            run.violation(dict(sig, what='FROM <table>: ' + sig['what']), {'kind': 'from_case', 'case': case, 'mode': mode})


def check(run):
    run.prop = 'EXT'
    run.rule = ('extensions of the specification beyond the listed properties: join-table lookup order (16 existence combinations x relative/absolute id, each in a fresh process with its own HOME and working directory); '
                'rbql-js query_csv (stream, bulk) and node cli_rbql.js over the C13 cases; user init code (defining a function used in SELECT / WHERE / ORDER BY / UPDATE, or raising) over small tables')
    run.assumptions = ['not a listed property: mismatches are reported as EXTENSION-MISMATCH']
    table_lookup(run)
    from . import readerapi
    readerapi.check(run, run.tier == 'quick')
    repo_scenarios(run)
    from_tables(run)
    ec.run_family(run, 'EXT-user-init-code', 'Q_EXTinit', 'R_2x2', maxA=2, hdrmodes=(False, True))
    js_pipeline(run, 'EXT-js-text-pipeline', [97, 34, 44, 59, 10, 32], 3, False)
    js_pipeline(run, 'EXT-js-text-pipeline-header', [97, 34, 44, 59, 10, 32], 3, True)
    js_frontends(run, 'EXT-js-frontends', 'Q_C13', 'R_2x2p', 2)
    js_frontends(run, 'EXT-js-frontends-join', 'Q_C13join', 'R_2x2', 2, recsB='R_2x2', maxB=2, cli_every=40)
    run.exhaustive = True


def replay(path):
    import json
    rep = json.load(open(path))
    if rep.get('case', {}).get('kind') == 'reader_api':
        from . import readerapi
        return readerapi.replay_case(rep['case'])
    print(open(path).read()[:3000])
    return 1
