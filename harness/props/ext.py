"""EXT -- behaviour beyond the 20 listed properties that the specification has grown to cover.

Not a claimed property: `./check EXT` is an extra; a mismatch here is printed as EXTENSION-MISMATCH and makes the
command exit 1, but it is never reported as a VIOLATION of a listed property.

1. join-table lookup (rbql_csv.find_table_path): the id of the query text is tried as a path, then relative to the
   input file's directory, then as a key of ~/.rbql_table_names -- Frontends!ResolveTable, judged by TLC.
2. user init code (engine): runs once after set_header and before the first get_record; functions it defines are
   visible to every clause; an exception in it is reported as such -- RbqlEngine (q.init, action RunInit).
"""
import json
import os
import shutil
import subprocess
import sys
import tempfile

from .. import core, tlcrun, impl, engine, frontends
from .. import enginecheck as ec

LOOKUP = r'''
import sys, os, json
sys.path.insert(0, %(pkg)r)
import rbql
from rbql import rbql_csv
assert rbql.__file__.startswith(%(pkg)r)
spec = json.load(sys.stdin)
os.chdir(spec['cwd'])
out = os.path.join(spec['cwd'], 'out.csv')
warnings = []
try:
    rbql_csv.query_csv('select b2 join %%s on a1 == b1' %% spec['table_id'], spec['input'], ',', 'quoted', out, ',', 'quoted', 'utf-8', warnings, False)
    rows = [l for l in open(out).read().split('\n') if l]
    print(json.dumps({'found': rows[0] if rows else 'empty'}))
except Exception as e:
    print(json.dumps({'found': 'none' if 'Unable to find join table' in str(e) else 'error: ' + str(e)[:200]}))
'''


def table_lookup(run):
    traces = []
    info = {}
    tid = 0
    root = tempfile.mkdtemp(prefix='rbqlverif_lookup_')
    try:
        for direct in (False, True):
            for maindir in (False, True):
                for index in (False, True):
                    for absid in (False, True):
                        tid += 1
                        d = os.path.join(root, 'c%d' % tid)
                        home = os.path.join(d, 'home')
                        cwd = os.path.join(d, 'cwd')
                        indir = os.path.join(d, 'data')
                        elsewhere = os.path.join(d, 'elsewhere')
                        for x in (home, cwd, indir, elsewhere):
                            os.makedirs(x)
                        inp = os.path.join(indir, 'in.csv')
                        open(inp, 'w').write('k,1\n')
                        if absid:
                            table_id = os.path.join(elsewhere, 'J.csv')
                            if direct:
                                open(table_id, 'w').write('k,direct\n')
                            # relative lookups do not apply to an absolute id; a file of that name in the input directory must be ignored
                            if maindir:
                                open(os.path.join(indir, 'J.csv'), 'w').write('k,maindir\n')
                        else:
                            table_id = 'J.csv'
                            if direct:
                                open(os.path.join(cwd, 'J.csv'), 'w').write('k,direct\n')
                            if maindir:
                                open(os.path.join(indir, 'J.csv'), 'w').write('k,maindir\n')
                        if index:
                            target = os.path.join(elsewhere, 'indexed.csv')
                            open(target, 'w').write('k,index\n')
                            open(os.path.join(home, '.rbql_table_names'), 'w').write('other\t/nonexistent\n%s\t%s\n' % (table_id, target))
                        env = dict(os.environ, HOME=home, PYTHONDONTWRITEBYTECODE='1', PYTHONWARNINGS='ignore')
                        p = subprocess.run(['/venv/bin/python', '-c', LOOKUP % {'pkg': os.path.join(impl.REPO, 'rbql-py')}], input=json.dumps({'cwd': cwd, 'input': inp, 'table_id': table_id}).encode(),
                                           stdout=subprocess.PIPE, stderr=subprocess.PIPE, env=env, timeout=120)
                        if p.returncode != 0:
                            core.machinery_failure('lookup subprocess failed: ' + p.stderr.decode()[-400:])
                        found = json.loads(p.stdout.decode().strip().split('\n')[-1])['found']
                        traces.append({'tid': tid, 'direct': direct, 'maindir': maindir, 'index': index, 'abs': absid, 'hasdir': True, 'found': found})
                        info[tid] = traces[-1]
                        run.traces += 1
                        run.count(['lookup', direct, maindir, index, absid], nontrivial=(direct + maindir + index) >= 2)
    finally:
        shutil.rmtree(root, ignore_errors=True)
    run.sample({'lookup': traces[5]})
    rej = frontends.validate(run, 'lookup', traces, 'find_table_path')
    for t in rej:
        run.violation({'what': 'join-table lookup differs from ResolveTable', 'case': json.dumps(info[t])}, {'kind': 'lookup', 'case': info[t]})


def check(run):
    run.prop = 'EXT'
    run.rule = ('extensions of the specification beyond the listed properties: join-table lookup order (16 existence combinations x relative/absolute id, each in a fresh process with its own HOME and working directory); '
                'user init code (defining a function used in SELECT / WHERE / ORDER BY / UPDATE, or raising) over small tables')
    run.assumptions = ['not a listed property: mismatches are reported as EXTENSION-MISMATCH']
    table_lookup(run)
    ec.run_family(run, 'EXT-user-init-code', 'Q_EXTinit', 'R_2x2', maxA=2, hdrmodes=(False, True))
    run.exhaustive = True


def replay(path):
    print(open(path).read()[:3000])
    return 1
