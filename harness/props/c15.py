"""C15 -- broken pipes, bad bytes and errors are handled cleanly at every point.

(a) engine break points: RbqlEngine with a fault plan (leaf refuses from call k) x query shapes, TLC proves
    prefix output / writer protocol / promptness; replayed with a user writer returning False at k.
(b) the real CSVWriter over a stream raising BrokenPipeError at every stream.write index, same cases.
(c) bad bytes: Utf8 (incremental decoder, every partition) model-checked; every byte string within the bound
    delivered to the real reader under every partition x chunk sizes; verdict by TLC (BadByteTrace).
(d) file handles of query_csv on every terminating path: see harness/frontends.py (FrontendTrace).
"""
import io
import json
import os

from .. import core, tlcrun, par, impl, engine
from .. import enginecheck as ec
from .c12 import ScriptedRaw, partitions, cut, run_reader
from ..text import cpss


class FaultyOut(object):
    """Text stream whose write raises BrokenPipeError from call number fail_at on (0 = never)."""

    def __init__(self, fail_at):
        self.fail_at = fail_at
        self.calls = 0
        self.parts = []
        self.flushes = 0

    def write(self, text):
        self.calls += 1
        if self.fail_at and self.calls >= self.fail_at:
            raise BrokenPipeError(32, 'Broken pipe')
        self.parts.append(text)
        return len(text)

    def flush(self):
        self.flushes += 1
        if self.fail_at and self.calls >= self.fail_at:
            raise BrokenPipeError(32, 'Broken pipe')

    def close(self):
        # like a buffered pipe with bytes still pending: closing a broken stream fails too
        if self.fail_at and self.calls >= self.fail_at:
            raise BrokenPipeError(32, 'Broken pipe')


def run_csvwriter(mods, case, qtext, fail_at, close_on_finish=False):
    rbql, eng, rcsv, cu = mods
    RecIterator, RecWriter, Registry = engine.make_recorders(eng)
    events = []

    class RecCSVWriter(rcsv.CSVWriter):
        def set_header(self, header):
            events.append({'e': 'set_header'})
            self._in_header = True
            try:
                return rcsv.CSVWriter.set_header(self, header)
            finally:
                self._in_header = False

        def write(self, fields):
            ok = rcsv.CSVWriter.write(self, fields)
            # the header line is written by set_header itself (no return value reaches the engine): not a protocol-level write
            if not getattr(self, '_in_header', False):
                events.append({'e': 'write', 'ok': bool(ok)})
            return ok

        def finish(self):
            events.append({'e': 'finish'})
            return rcsv.CSVWriter.finish(self)

    A = engine.table_py(case['A'])
    B = engine.table_py(case['B'])
    hdrA = list(case['hdrA']) if case['hasHdr'] else None
    hdrB = list(case['hdrB']) if case['hasHdr'] else None
    it = RecIterator(A, hdrA, events, 'a')
    out = FaultyOut(fail_at)
    wr = RecCSVWriter(out, close_on_finish, None, ',', 'quoted')
    reg = Registry(B, hdrB, events) if case['q']['join'] != 'none' else None
    warnings = []
    err = None
    try:
        eng.query(qtext, it, wr, warnings, reg)
    except Exception as e:  # noqa
        err = type(e).__name__ + ': ' + str(e)
    return {'text': ''.join(out.parts), 'parts': list(out.parts), 'calls': out.calls, 'err': err, 'events': events, 'pulled': it.calls, 'flushes': out.flushes}


def _pipe_chunk(cases):
    mods = impl.load()
    out = []
    for tid, case in cases:
        qtext = engine.render_query(case, engine.Plain(), 'py')
        full = run_csvwriter(mods, case, qtext, 0)
        sigs = []
        traces = []
        if full['err']:
            out.append((tid, [{'impl': 'py', 'what': 'fault-free CSV run failed', 'msg': full['err'], 'query': qtext}], [], 0))
            continue
        nruns = 0
        for j in range(1, full['calls'] + 2):
            r2 = run_csvwriter(mods, case, qtext, j, close_on_finish=True)
            nruns += 1
            if r2['err']:
                sigs.append({'impl': 'py', 'what': 'exception escaped on broken pipe (close_stream_on_finish)', 'fail_at': j, 'msg': r2['err'], 'query': qtext})
            r = run_csvwriter(mods, case, qtext, j)
            nruns += 1
            if r['flushes'] and j <= full['calls']:
                sigs.append({'impl': 'py', 'what': 'finish() flushed a stream already known to be broken', 'fail_at': j, 'query': qtext})
            if r['err']:
                sigs.append({'impl': 'py', 'what': 'exception escaped on broken pipe', 'fail_at': j, 'msg': r['err'], 'query': qtext})
                continue
            if r['text'] != ''.join(full['parts'][:j - 1]):
                sigs.append({'impl': 'py', 'what': 'output is not the prefix of the fault-free output', 'fail_at': j, 'got': r['text'], 'want': ''.join(full['parts'][:j - 1]), 'query': qtext})
            evs = [{'e': e['e'], 't': e.get('t', 'w'), 'end': bool(e.get('end', False)), 'ok': bool(e.get('ok', True))} for e in r['events']]
            # a broken pipe is not an error outcome, but finish() is still called by the engine (it is a no-op in the writer)
            traces.append({'tid': '%d.%d' % (tid, j), 'outcome': 'ok', 'errcls': '', 'events': evs, 'streaming': False, 'pulllimit': 0, 'alias': False, 'src_changed': False})
        out.append((tid, sigs, traces, nruns))
    return out


def broken_pipe_csv(run, label, queries, recsA, maxA, recsB='R_none', maxB=0, hdrmodes=(False, True)):
    d = tlcrun.new_scratch('c15pipe')
    cfg = ec.engine_cfg(os.path.join(d, label + '.cfg'), queries, recsA, recsB, maxA, maxB, hdrmodes, (0,))
    res = tlcrun.run_tlc('MC_Engine', cfg, timeout=3600, heap='16g')
    run.add_tlc('MC_Engine:' + label, res)
    cases = list(enumerate(res.cases, 1))
    out = par.pmap(_pipe_chunk, cases, chunk=200)
    traces = []
    keep = dict(cases)
    for tid, sigs, trs, nruns in out:
        run.traces += nruns
        run.count(['pipe', ec.case_key(keep[tid])], nontrivial=nruns >= 3, n=nruns)
        for sig in sigs:
            run.violation(sig, {'kind': 'pipe_case', 'case': keep[tid]})
        traces.extend(trs)
    ec.validate_engine_traces(run, traces, label + '-csvwriter', {})


BYTE_ALPHABET = [97, 10, 13, 44, 195, 169, 226, 130, 172, 240, 159, 152, 128, 255, 237, 160]     # incl. CR: a bad byte hit by the 1-character look-ahead read


def _bytes_chunk(items):
    mods = impl.load()
    out = []
    for bs in items:
        data = bytes(bs)
        seen = {}
        nruns = 0
        for policy in ('quoted', 'simple'):
            for lens in partitions(len(data)):
                for cs in (1, 3, 1024):
                    raw = io.BufferedReader(ScriptedRaw(cut(data, lens)), buffer_size=8)
                    got, _ = run_reader(mods, raw, 'utf-8', ',', policy, 0, False, cs)
                    nruns += 1
                    if 'other_error' in got:
                        msg = got['other_error']
                        rec = {'ioerr': msg.startswith('IOERR'), 'other': not msg.startswith('IOERR'),
                               'result': {'recs': [], 'bom': False, 'firstdef': 0, 'ragged': [], 'err': False, 'errnr': 0, 'errnl': 0}, 'msg': msg}
                    else:
                        got = dict(got)
                        got['recs'] = [cpss(r) for r in got['recs']]
                        rec = {'ioerr': False, 'other': False, 'result': got, 'msg': ''}
                    key = json.dumps([policy, rec], sort_keys=True)
                    if key not in seen:
                        seen[key] = dict(rec, bytes=list(bs), policy=policy, cmt=0, schedule=[lens, cs])
            io_stream = io.BytesIO(data)
            got, _ = run_reader(mods, io_stream, 'utf-8', ',', policy, 0, False, 1024)
            nruns += 1
        out.append((list(bs), list(seen.values()), nruns))
    return out


def bad_bytes(run, maxbytes):
    d = tlcrun.new_scratch('c15utf8')
    consts = {'ByteAlphabet': '{' + ', '.join(map(str, BYTE_ALPHABET)) + '}', 'MaxBytes': maxbytes, 'EmitCases': 'TRUE', 'MUT': '""'}
    cfg = tlcrun.write_cfg(os.path.join(d, 'utf8.cfg'), constants=consts, invariants=['DecoderCorrect', 'RoundTrip', 'Emit'])
    res = tlcrun.run_tlc('Utf8', cfg, timeout=3600)
    run.add_tlc('Utf8:bytes<=%d' % maxbytes, res)
    consts['MUT'] = '"nonstreaming_decoder"'
    consts['EmitCases'] = 'FALSE'
    consts['MaxBytes'] = 3
    mres = tlcrun.run_tlc('Utf8', tlcrun.write_cfg(os.path.join(d, 'utf8mut.cfg'), constants=consts, invariants=['DecoderCorrect']), expect_violation=True)
    if mres.violation is None:
        core.machinery_failure('Utf8 mutant nonstreaming_decoder not rejected')
    run.notes.setdefault('spec_mutants_rejected', []).append('Utf8/nonstreaming_decoder -> ' + mres.violation)
    strings = sorted(set(tuple(c['bytes']) for c in res.cases))
    want = sum(len(BYTE_ALPHABET) ** k for k in range(maxbytes + 1))
    if len(strings) != want:
        core.machinery_failure('Utf8: expected %d byte strings, got %d' % (want, len(strings)))
    out = par.pmap(_bytes_chunk, strings, chunk=400)
    traces = []
    tid = 0
    for bs, recs, nruns in out:
        run.traces += nruns
        run.count(['bytes', bs], nontrivial=any(b >= 128 for b in bs), n=nruns)
        for r in recs:
            tid += 1
            traces.append(dict(r, tid=tid))
    run.sample({'bad_byte_trace': {k: traces[len(traces) // 2][k] for k in ('bytes', 'policy', 'ioerr', 'schedule')}})
    dd = tlcrun.new_scratch('c15bb')
    path = os.path.join(dd, 'traces.ndjson')
    with open(path, 'w') as f:
        for t in traces:
            f.write(json.dumps({k: t[k] for k in ('tid', 'bytes', 'policy', 'cmt', 'ioerr', 'other', 'result')}) + '\n')
    c2 = {'Alphabet': '{}', 'MaxLen': 0, 'Policies': '{}', 'CommentChars': '{}', 'Enc': '"utf-8"', 'DlmA': 44, 'EmitCases': 'FALSE', 'MUT': '""'}
    tcfg = tlcrun.write_cfg(os.path.join(dd, 'trace.cfg'), constants=c2, init='TInit', next_='TNext', invariants=['Judge'])
    tres = tlcrun.run_tlc('BadByteTrace', tcfg, workers=1, env={'TRACE_FILE': path}, timeout=3600)
    run.add_tlc('BadByteTrace', tres)
    if not any(c.get('consumed') == len(traces) for c in tres.cases):
        core.machinery_failure('bad-byte trace batch not consumed')
    bytid = {t['tid']: t for t in traces}
    for c in tres.cases:
        if 'reject' in c:
            t = bytid[c['reject']]
            run.violation({'impl': 'py', 'what': 'byte-level read rejected by BadByteTrace', 'valid_utf8': c['valid'], 'ioerr': t['ioerr'], 'raw_exception': t['other'], 'msg': t['msg'][:80]},
                          {'kind': 'bytes_case', 'bytes': t['bytes'], 'policy': t['policy'], 'schedule': t['schedule']})


def writer_chain_proof(run):
    """The writer protocol for ANY number of records: RbqlEngine refines WriterChain (TLC, PROPERTY ChainRefinement in every engine run of
    this check) and WriterChain's IndInv (which implies ~m.bad) is an inductive invariant (Apalache, unbounded m.writes)."""
    results = {}
    results['initiation: WInit => IndInv'] = tlcrun.run_apalache('WriterChainInd', 'WInit', 'WNext', 'IndInv', 0)
    results['consecution: IndInv /\\ WNext => IndInv\''] = tlcrun.run_apalache('WriterChainInd', 'IndInit', 'WNext', 'IndInv', 1)
    results['mutant (a leaf write that ignores the stop flag) breaks consecution'] = tlcrun.run_apalache('WriterChainMut', 'IndInit', 'MutNext', 'IndInv', 1)
    want = ['NoError', 'NoError', 'Error']
    if list(results.values()) != want:
        core.machinery_failure('WriterChain inductive argument: %s' % json.dumps(results))
    run.notes['apalache_writer_chain'] = results


def check(run):
    quick = run.tier == 'quick'
    run.rule = ('(a) case = (query shape of Q_C15, table, break point k in 0..|T|+2) from TLC, replayed with a writer returning False at call k; (b) the same shapes through the real CSVWriter over '
                'a stream raising BrokenPipeError at every stream.write index; (c) every byte string up to the bound over {a, LF, comma, pieces of 2/3/4-byte sequences, 0xFF, surrogate lead} under '
                'every partition x chunk sizes {1,3,1024} x {quoted, simple}, judged by TLC (BadByteTrace); (d) query_csv file handles: harness/frontends (C13 machinery); '
                '(e) the engine refines the protocol abstraction WriterChain (TLC, every engine run) whose inductive invariant Apalache checks for any number of records; '
                'non-trivial = >= 2 input records and output / >= 3 fault runs / byte string with a non-ASCII byte')
    run.assumptions = ['a broken pipe is represented by a stream raising BrokenPipeError (no OS pipe)']
    writer_chain_proof(run)
    ec.spec_mutant(run, 'Q_C15', 'R_2x2', 'no_stop_on_false', maxA=2, breakpoints=(0, 1, 2))
    ec.run_family(run, 'C15-breakpoints', 'Q_C15', 'R_2x2', recsB='R_2x2', maxA=2, maxB=2, breakpoints=tuple(range(0, 5 if quick else 7)), hdrmodes=(False, True))
    if not quick:
        # longer inputs with a smaller join table (the full product with maxA=3, maxB=2 exhausted a 21 GB heap)
        ec.run_family(run, 'C15-breakpoints-3', 'Q_C15', 'R_2x2', recsB='R_2x2', maxA=3, maxB=1, breakpoints=tuple(range(0, 7)), hdrmodes=(False,))
    broken_pipe_csv(run, 'C15-pipe', 'Q_C15', 'R_2x2', 2 if quick else 3, recsB='R_2x2', maxB=2)
    bad_bytes(run, 3 if quick else 4)
    from .. import frontends
    frontends.fd_scenarios(run)
    run.exhaustive = True


def replay(path):
    with open(path) as f:
        rep = json.load(f)
    c = rep['case']
    if c['kind'] in ('engine_case', 'engine_trace'):
        return ec.replay_file('C15', path)
    run = core.Run('C15', 'quick', 0)
    if c['kind'] == 'pipe_case':
        for tid, sigs, trs, nruns in _pipe_chunk([(1, c['case'])]):
            for sig in sigs:
                run.violation(sig, c)
    elif c['kind'] == 'bytes_case':
        for bs, recs, nruns in _bytes_chunk([tuple(c['bytes'])]):
            print(json.dumps(recs)[:2000])
    return run.finish()
