"""C03 -- aggregates / GROUP BY: one exact result row per group, in key order."""
from .. import enginecheck as ec


def check(run):
    quick = run.tier == 'quick'
    run.rule = ('case = (select list over the 9 aggregates (3 spellings each, COUNT(*)/COUNT(1)/COUNT(x), expression arguments), group keys and constants x {no GROUP BY, 1-2 keys} x WHERE x TOP, '
                'table with a key column and a numeric column in one presentation: numeric strings incl. "1.5", ints, floats) enumerated by TLC; Ref computes exact rationals (COUNT, MIN, MAX, SUM, AVG, '
                'population VARIANCE, MEDIAN, ARRAY_AGG, ANY_VALUE as a set of admissible values); replayed; floats compared with the exact rational within 1e-9 relative; '
                'non-trivial = >= 2 input records and (>= 1 output row or an error)')
    run.assumptions = ['numeric cells are unsigned decimal strings / ints / floats (None cells only in the D7 boundary family)', 'int-vs-float type of a result is not asserted (statement: "mathematical")']
    ec.run_family(run, 'C03-one-item', 'Q_C03one', 'R_num', maxA=2 if quick else 3)
    if quick:
        ec.run_family(run, 'C03-medians-4', 'Q_C03med', 'R_num', maxA=4)
    ec.run_family(run, 'C03-two-items', 'Q_C03two', 'R_num', maxA=1 if quick else 2, hdrmodes=(False, True))
    ec.run_family(run, 'C03-prefix-group-keys', 'Q_C03key', 'R_keysp', maxA=3)
    ec.run_family_js(run, 'C03-js-group-key-order', 'Q_C03key', 'R_keysp', maxA=3)
    ec.run_family_js(run, 'C03-js-numeric-group-keys', 'Q_C03key', 'R_numk', maxA=3)
    ec.run_family(run, 'C03-mixed-width-numbers', 'Q_C03med', 'R_numw', maxA=3)
    ec.run_family_js(run, 'C03-js-mixed-width-numbers', 'Q_C03med', 'R_numw', maxA=3)
    ec.run_family(run, 'C03-constant-column-falsy-first-value', 'Q_C03const', 'R_keyse', maxA=3)
    ec.run_family_js(run, 'C03-js-constant-column-falsy-first-value', 'Q_C03const', 'R_keyse', maxA=3)
    ec.run_family(run, 'C03-numeric-group-keys', 'Q_C03key', 'R_numk', maxA=3)
    ec.run_family(run, 'C03-numeric-string-group-keys', 'Q_C03keys', 'R_numks', maxA=3)
    ec.run_family(run, 'C03-int-column', 'Q_C03num', 'R_numi', maxA=2 if quick else 3)
    ec.run_family(run, 'C03-float-column', 'Q_C03num', 'R_numf', maxA=2 if quick else 3)
    ec.run_family(run, 'C03-zero-negative', 'Q_C03med', 'R_numz', maxA=3)
    ec.run_family_js(run, 'C03-js-zero-negative', 'Q_C03med', 'R_numz', maxA=3)
    ec.run_family(run, 'C03-misuse', 'Q_C03bad', 'R_num', maxA=2)
    ec.run_family(run, 'C03-builtins', 'Q_C03builtin', 'R_num', maxA=2)
    ec.run_family(run, 'C03-none-constant', 'Q_C03none', 'R_numN', maxA=2 if quick else 3)
    run.exhaustive = True


def replay(path):
    return ec.replay_file('C03', path)
