"""EXT -- the record-level API of CSVRecordIterator as a sequential object (spec/ReaderApi.tla).

(A) TLC: every history of MaxCalls calls (get_record / get_all_records(n) / get_header / get_warnings / WITH modifier) over every
    table of <= MaxRecs lines with 1..2 fields: NoLossNoDup, EofTruthful, AllBounded, WarningsOfPrefix, HeaderStable; two spec
    mutants must be rejected.
(B) spec -> code: every emitted history replayed into rbql_csv.CSVRecordIterator of the tree, under a rotation of policy
    (simple / quoted / quoted_rfc), chunk size (1, 3, 7, 1024), line separator (LF / CRLF), final line terminator present or not
    and comment lines interleaved (invisible at this level); every reply compared with the specification's.
"""
import io
import json
import os
import re

from .. import core, tlcrun, par, impl, messages

INVS = ['TypeOK', 'NoLossNoDup', 'EofTruthful', 'AllBounded', 'WarningsOfPrefix', 'HeaderStable']
POLICIES = ['simple', 'quoted', 'quoted_rfc']
CHUNKS = [1, 3, 7, 1024]


def fields_of(i, w):
    return ['r%dc%d' % (i, k) for k in range(1, w + 1)]


def render(widths, variant):
    policy = POLICIES[variant % 3]
    chunk = CHUNKS[(variant // 3) % 4]
    sep = '\r\n' if (variant // 12) % 2 else '\n'
    final = (variant // 24) % 2 == 0
    comments = (variant // 48) % 3           # 0 none, 1 before every line, 2 after every line (and so also at the very end)
    lines = []
    for i, w in enumerate(widths, 1):
        if comments == 1:
            lines.append('#c%d,x,y' % i)
        f = fields_of(i, w)
        if policy != 'simple' and i % 2 == 0:
            f = ['"%s"' % x for x in f]       # quoted spelling of the same field
        lines.append(','.join(f))
        if comments == 2:
            lines.append('#c%d' % i)
    text = sep.join(lines)
    if lines and final:
        text += sep
    return text, policy, chunk, comments != 0


def expected_reply(call, widths):
    op, reply = call['op'], call['reply']
    if op == 'get':
        return fields_of(reply[0], widths[reply[0] - 1]) if reply else None
    if op == 'all':
        return [fields_of(i, widths[i - 1]) for i in reply]
    if op == 'hdr':
        return fields_of(1, widths[0]) if reply else None
    if op == 'warn':
        if not reply:
            return []
        return [list(reply)]          # one warning naming record nr1 with w1 fields and record nr2 with w2 fields (numbers only: the wording is free)
    return None


def clause_of(op, got, want, widths):
    """'header' when the mismatch is about the header line (C09: it is never delivered as a record, get_header names it, and without a header
    line 1 is the first record); 'api' for everything else the specification fixes (counts, end of input, warnings)."""
    if op == 'hdr':
        return 'header'
    if op in ('get', 'all') and widths:
        first = fields_of(1, widths[0])

        def has_first(reply):
            if reply is None:
                return False
            recs = [reply] if op == 'get' else list(reply)
            return any(list(r) == first for r in recs if r is not None)
        if has_first(got) != has_first(want):
            return 'header'
    return 'api'


def _replay_chunk(items):
    rbql, eng, rcsv, cu = impl.load()
    out = []
    for idx, case, variant in items:
        widths = case['widths']
        text, policy, chunk, has_comments = render(widths, variant)
        sigs = []
        try:
            it = rcsv.CSVRecordIterator(io.BytesIO(text.encode('utf-8')), 'utf-8', ',', policy, has_header=bool(case['header']), comment_prefix='#' if has_comments else None, chunk_size=chunk)
            for k, call in enumerate(case['hist']):
                op = call['op']
                if op == 'get':
                    got = it.get_record()
                elif op == 'all':
                    got = it.get_all_records(call['arg'] if call['arg'] else None)
                elif op == 'hdr':
                    got = it.get_header()
                elif op == 'warn':
                    got = [list(c[1]) if c[0] == 'ragged' else [c[0]] for c in (messages.classify_warning(w) for w in it.get_warnings())]
                else:
                    it.handle_query_modifier('header' if call['arg'] == 1 else 'noheader')
                    got = None
                want = expected_reply(call, widths)
                if got != want:
                    sigs.append({'impl': 'py', 'entry': 'CSVRecordIterator.' + op, 'what': 'reader API reply differs from ReaderApi', 'call': k + 1, 'op': op, 'got': repr(got)[:200], 'want': repr(want)[:200],
                                 'policy': policy, 'chunk': chunk, 'clause': clause_of(op, got, want, widths)})
                    break
        except Exception as e:  # noqa -- the API is total on well-formed input
            if not par.innermost_in_repo(e.__traceback__):
                raise
            sigs.append({'impl': 'py', 'entry': 'CSVRecordIterator', 'what': 'reader API raised', 'got': type(e).__name__ + ': ' + str(e)[:120], 'policy': policy, 'chunk': chunk})
        if not sigs and variant % 2 == 0 and sqlite_applicable(case):
            sigs.extend(_replay_sqlite(case))
        out.append((idx, sigs))
    return out


def sqlite_applicable(case):
    w = case['widths']
    return bool(case['header']) and len(w) >= 1 and len(set(w)) == 1 and all(c['op'] != 'mod' for c in case['hist'])


def _replay_sqlite(case):
    """The same histories against the second implementation of the iterator interface, rbql_sqlite.SqliteRecordIterator
    (the column names are line 1, the rows are lines 2..; rectangular tables with a header only)."""
    import sqlite3
    from rbql import rbql_sqlite
    widths = case['widths']
    db = sqlite3.connect(':memory:')
    sigs = []
    try:
        names = fields_of(1, widths[0])
        db.execute('CREATE TABLE t (%s)' % ', '.join('%s TEXT' % n for n in names))
        for i in range(2, len(widths) + 1):
            db.execute('INSERT INTO t VALUES (%s)' % ', '.join('?' * widths[0]), fields_of(i, widths[0]))
        it = rbql_sqlite.SqliteRecordIterator(db, 't')
        for k, call in enumerate(case['hist']):
            op = call['op']
            want = expected_reply(call, widths)
            if op == 'get':
                got = it.get_record()
            elif op == 'all':
                got = [list(r) for r in it.get_all_records(call['arg'] if call['arg'] else None)]
            elif op == 'hdr':
                got = it.get_header()
            else:
                got = it.get_warnings()
                want = []
            if got != want:
                sigs.append({'impl': 'py', 'entry': 'SqliteRecordIterator.' + op, 'what': 'reader API reply differs from ReaderApi', 'call': k + 1, 'op': op, 'got': repr(got)[:200], 'want': repr(want)[:200], 'backend': 'sqlite',
                             'clause': clause_of(op, got, want, widths)})
                break
    except Exception as e:  # noqa
        if not par.innermost_in_repo(e.__traceback__):
            raise
        sigs.append({'impl': 'py', 'entry': 'SqliteRecordIterator', 'what': 'reader API raised', 'got': type(e).__name__ + ': ' + str(e)[:120], 'backend': 'sqlite'})
    finally:
        db.close()
    return sigs


def check(run, quick, clauses=('header', 'api')):
    d = tlcrun.new_scratch('readerapi')
    base = {'MaxRecs': 3, 'MaxCalls': 3 if quick else 4, 'EmitCases': 'FALSE', 'MUT': '""'}
    for mut in ('all_one_more', 'skip_after_header'):
        mres = tlcrun.run_tlc('ReaderApi', tlcrun.write_cfg(os.path.join(d, mut + '.cfg'), constants=dict(base, MUT='"%s"' % mut), invariants=INVS), expect_violation=True)
        if mres.violation is None:
            core.machinery_failure('ReaderApi mutant %s not rejected' % mut)
        run.notes.setdefault('spec_mutants_rejected', []).append('ReaderApi/%s -> %s' % (mut, mres.violation))
    res = tlcrun.run_tlc('ReaderApi', tlcrun.write_cfg(os.path.join(d, 'ra.cfg'), constants=dict(base, EmitCases='TRUE'), invariants=INVS + ['Emit']), timeout=3600)
    run.add_tlc('ReaderApi:recs<=3,calls=%d' % base['MaxCalls'], res)
    if not quick:
        deep = tlcrun.run_tlc('ReaderApi', tlcrun.write_cfg(os.path.join(d, 'deep.cfg'), constants=dict(base, MaxRecs=4, MaxCalls=5), invariants=INVS), timeout=3600, want_cases=False)
        run.add_tlc('ReaderApi:recs<=4,calls=5 (invariants only)', deep)
    if len(res.cases) < 1000:
        core.machinery_failure('ReaderApi emitted only %d histories' % len(res.cases))
    items = []
    for i, c in enumerate(res.cases):
        for v in ((i * 5) % 144, (i * 5 + 61) % 144):
            items.append((len(items), c, v))
    run.sample({'reader_api_history': {'widths': items[len(items) // 2][1]['widths'], 'header': items[len(items) // 2][1]['header'], 'calls': [(c['op'], c['arg'], c['reply']) for c in items[len(items) // 2][1]['hist']]}})
    ops = {}
    for (idx, case, variant), (_, sigs) in zip(items, par.pmap(_replay_chunk, items, chunk=1500)):
        run.traces += 1
        run.count(['readerapi', case['widths'], case['header'], [(c['op'], c['arg']) for c in case['hist']], variant], nontrivial=len(case['widths']) >= 2)
        for c in case['hist']:
            ops[c['op']] = ops.get(c['op'], 0) + 1
        for sig in sigs:
            if sig.get('clause', 'api') in clauses:
                run.violation(sig, {'kind': 'reader_api', 'case': case, 'variant': variant})
    run.notes['reader_api_calls_replayed'] = ops
    run.notes['reader_api_clauses_reported'] = list(clauses)
    if set(ops) != {'get', 'all', 'hdr', 'warn', 'mod'}:
        core.machinery_failure('ReaderApi: some call kind never replayed: %r' % ops)


def replay_case(rep):
    out = _replay_chunk([(0, rep['case'], rep['variant'])])
    for _, sigs in out:
        for s_ in sigs:
            print(json.dumps(s_))
        return 1 if sigs else 0
