"""C07 -- output header always matches output records and follows the naming rules."""
from .. import enginecheck as ec


def check(run):
    quick = run.tier == 'quick'
    run.rule = ('case = (select list of 1..2 items over {aN / a[N] / a.name / a["name"] spellings, NR, expression, star forms, AS aliases, UNNEST} x {DISTINCT, DISTINCT COUNT, TOP} x '
                '{header, no header} x {join, no join}, small table) enumerated by TLC with HeaderRef; replayed; header names and width compared; '
                'non-trivial = query produces a header or an error')
    run.assumptions = ['column names are identifier-like (awkward names are C09)']
    ec.spec_mutant(run, 'Q_C07', 'R_2x2', 'distinct_count_header_short', hdrmodes=(True,))
    ec.run_family(run, 'C07-lists', 'Q_C07', 'R_2x2', maxA=1 if quick else 2, hdrmodes=(False, True), opts={'nontrivial_rule': 'header'})
    ec.run_family(run, 'C07-join', 'Q_C07join', 'R_2x2', recsB='R_2x2', maxA=1, maxB=1 if quick else 2, hdrmodes=(False, True), opts={'nontrivial_rule': 'header'})
    ec.run_family(run, 'C07-join-narrowA-wideB', 'Q_C07join', 'R_w1', recsB='R_w3', maxA=1, maxB=1, hdrmodes=(True,), opts={'nontrivial_rule': 'header'})
    ec.run_family(run, 'C07-join-wideA-narrowB', 'Q_C07join', 'R_w3', recsB='R_w1', maxA=1, maxB=1, hdrmodes=(True,), opts={'nontrivial_rule': 'header'})
    ec.run_family(run, 'C07-alias-after-boolean-operator', 'Q_C07bool', 'R_2x2', maxA=1, hdrmodes=(False, True), opts={'nontrivial_rule': 'header'})
    ec.run_family(run, 'C07-aggregates', 'Q_C07agg', 'R_2x2', maxA=1, hdrmodes=(False, True), opts={'nontrivial_rule': 'header'})
    # the JavaScript port derives its header with its own code (rbql-js/rbql.js is an anchor of this property)
    ec.run_family_js(run, 'C07-js-lists', 'Q_C07', 'R_2x2', maxA=1, hdrmodes=(False, True), opts={'nontrivial_rule': 'header'})
    ec.run_family_js(run, 'C07-js-join', 'Q_C07join', 'R_2x2', recsB='R_2x2', maxA=1, maxB=1, hdrmodes=(False, True))
    ec.run_family_js(run, 'C07-js-alias-after-boolean-operator', 'Q_C07bool', 'R_2x2', maxA=1, hdrmodes=(False, True))
    ec.run_family_js(run, 'C07-js-aggregates', 'Q_C07agg', 'R_2x2', maxA=1, hdrmodes=(False, True))
    ec.run_family_js(run, 'C07-js-except', 'Q_C01exc', 'R_w3N', maxA=1, hdrmodes=(False, True))
    ec.run_family(run, 'C07-except-distinct', 'Q_C07exc', 'R_w3N', maxA=1, hdrmodes=(False, True), opts={'nontrivial_rule': 'header'})
    ec.run_family_js(run, 'C07-js-except-distinct', 'Q_C07exc', 'R_w3N', maxA=1, hdrmodes=(False, True))
    ec.run_family(run, 'C07-update-except', 'Q_C05swap', 'R_2x2', maxA=1, hdrmodes=(False, True), opts={'nontrivial_rule': 'header'})
    ec.run_family(run, 'C07-except', 'Q_C01exc', 'R_w3N', maxA=1, hdrmodes=(False, True), opts={'nontrivial_rule': 'header'})
    run.exhaustive = True


def replay(path):
    return ec.replay_file('C07', path)
