"""C05 -- UPDATE emits every record once, changing only assigned fields of matching rows."""
from .. import enginecheck as ec


def check(run):
    quick = run.tier == 'quick'
    run.rule = ('case = (UPDATE with 1..2 assignments over targets a1..a3 x rhs {literal, field, concatenation, NU} x WHERE x {no join, inner, left, strict}, table) enumerated by TLC; '
                'targets rendered as aN / a[N] / a.name / a["name"]; replayed into rbql.query; non-trivial = >= 2 input records and (>= 1 output row or an error)')
    run.assumptions = []
    ec.spec_mutant(run, 'Q_C05swap', 'R_w2', 'sequential_assign', maxA=1)
    ec.spec_mutant(run, 'Q_C05swap', 'R_w2', 'alias_up_fields', maxA=1)
    ec.run_family(run, 'C05-assign', 'Q_C05', 'R_w2' if quick else 'R_w3N', maxA=2, hdrmodes=(False, True))
    ec.run_family(run, 'C05-swap', 'Q_C05swap', 'R_w3N', maxA=2 if quick else 3, hdrmodes=(False, True))
    ec.run_family(run, 'C05-more-shapes', 'Q_C05more', 'R_w3N' if not quick else 'R_w3', maxA=2, hdrmodes=(False, True))
    ec.run_family(run, 'C05-tricky-rhs', 'Q_C05tricky', 'R_2x2', maxA=2, hdrmodes=(False, True))
    ec.run_family(run, 'C05-join-where-or', 'Q_C05joinor', 'R_2x2', recsB='R_2x2', maxA=2, maxB=1)
    ec.run_family(run, 'C05-two-digit-targets', 'Q_C05wide', 'R_wide', maxA=2, hdrmodes=(False, True))
    ec.run_family(run, 'C05-join', 'Q_C05join', 'R_w2N' if not quick else 'R_w2', recsB='R_w2', maxA=2, maxB=2)
    # rbql-js/rbql.js is an anchor of this property too
    ec.run_family_js(run, 'C05-js-update', 'Q_C05', 'R_2x2', maxA=2, hdrmodes=(False, True))
    ec.run_family_js(run, 'C05-js-update-ragged', 'Q_C05', 'R_w2', maxA=1)
    ec.run_family_js(run, 'C05-js-update-join', 'Q_C05join', 'R_2x2', recsB='R_2x2', maxA=2, maxB=2)
    # random cross product of every query kind x join x fault plan over ragged tables (tlc -simulate, seeded by VERIF_SEED)
    ec.run_family(run, 'C05-random-cross-product', 'Q_MIX', 'R_w2', recsB='R_w2', maxA=3, maxB=2, hdrmodes=(False, True), breakpoints=(0, 0, 0, 1, 2), simulate=1200 if quick else 20000, opts={'sim_next': 'SimNext2'})
    run.exhaustive = True


def replay(path):
    return ec.replay_file('C05', path)
