"""C06 -- no query ever modifies its sources (RBQL is non-destructive).

Lists / rbql-js arrays: the engine families (success, parse-error and runtime-error paths) replayed with
snapshots compared at every writer event and identity checks of written rows (TLC monitors no_alias / sources);
pandas: dataframe compared before/after; sqlite: every SQL statement logged (set_trace_callback), database
file hashed, hostile join-table identifiers judged by the SqlOk monitor (FrontendTrace); CSV files: hashes and
open modes from the query_csv scenarios (Frontends / FrontendTrace).
"""
import hashlib
import itertools
import json
import os
import re
import shutil
import sqlite3
import tempfile

from .. import core, tlcrun, impl, engine, frontends
from .. import enginecheck as ec


def pandas_cases(run, label, queries, recsA, maxA):
    """Rectangular string tables with a header as pandas dataframes: the input frame must be identical afterwards."""
    import pandas as pd
    mods = impl.load()
    from rbql import rbql_pandas
    assert rbql_pandas.__file__.startswith(impl.REPO)
    d = tlcrun.new_scratch('c06pd')
    cfg = ec.engine_cfg(os.path.join(d, label + '.cfg'), queries, recsA, 'R_none', maxA, 0, (True,), (0,))
    res = tlcrun.run_tlc('MC_Engine', cfg, timeout=3600)
    run.add_tlc('MC_Engine:' + label, res)
    n = 0
    for case in res.cases:
        A = engine.table_py(case['A'])
        if not A or any(len(r) != len(A[0]) for r in A) or any(c is None for r in A for c in r):
            continue
        qtext = engine.render_query(case, engine.Spelling(ec.case_key(case)), 'py')
        # every third case with non-string column labels (years, a float): RBQL sees their str(); the caller's index must stay as it is
        labels = list(case['hdrA']) if n % 3 else [2020 + k if k % 2 == 0 else 0.5 + k for k in range(len(case['hdrA']))]
        if labels != list(case['hdrA']):
            qtext = engine.render_query(case, engine.Plain(), 'py')
        df = pd.DataFrame(A, columns=labels)
        snap = df.copy(deep=True)
        snap_labels = [(type(c).__name__, c) for c in df.columns]
        err = None
        out = None
        try:
            out = rbql_pandas.query_dataframe(qtext, df)
        except Exception as e:  # noqa
            err = engine.project_error(mods[1], e)
        n += 1
        run.traces += 1
        run.count(['pandas', ec.case_key(case)], nontrivial=len(A) >= 2)
        if not df.equals(snap) or list(df.columns) != list(snap.columns) or df.values.tolist() != snap.values.tolist() or [(type(c).__name__, c) for c in df.columns] != snap_labels:
            run.violation({'impl': 'py', 'backend': 'pandas', 'what': 'input dataframe modified', 'query': qtext}, {'kind': 'pandas_case', 'case': case})
        want_err = case['expect']['err']
        if (err is None) != (not want_err):
            run.violation({'impl': 'py', 'backend': 'pandas', 'what': 'outcome differs from Ref', 'query': qtext, 'got': err, 'want': want_err}, {'kind': 'pandas_case', 'case': case})
        elif err is None:
            rows = [[engine.project_value(c if not (isinstance(c, float) and c != c) else None) for c in r] for r in out.values.tolist()]
            if not engine.rows_match(rows, case['expect']['out']):
                run.violation({'impl': 'py', 'backend': 'pandas', 'what': 'result rows', 'query': qtext, 'got': rows, 'want': case['expect']['out']}, {'kind': 'pandas_case', 'case': case})
    run.notes.setdefault('cases_per_family', {})[label] = n


def pandas_missing_values(run):
    """Dataframes with missing values (None and NaN cells): whatever the query does (select, update, a failing one), the caller's frame keeps
    its cells (None stays None, NaN stays NaN), dtypes and labels.  Only the source is looked at here (queries over missing values are outside C01-C05)."""
    import math
    import pandas as pd
    mods = impl.load()
    from rbql import rbql_pandas

    def cellsig(df):
        return [[('None' if v is None else 'NaN' if (isinstance(v, float) and math.isnan(v)) else repr(v)) for v in row] for row in df.values.tolist()], [str(t) for t in df.dtypes], [(type(c).__name__, c) for c in df.columns]
    frames = [lambda: pd.DataFrame([['a', None], ['b', 'y']], columns=['x1', 'x2']),
              lambda: pd.DataFrame([['a', float('nan')], ['b', 'y']], columns=['x1', 'x2']),
              lambda: pd.DataFrame([[1.5, float('nan')], [2.5, 3.0]], columns=['x1', 'x2']),
              lambda: pd.DataFrame([[None, 'p'], [float('nan'), 'q']], columns=['x1', 'x2'])]
    queries = ['select a1', 'select *', 'select a2, a1 order by a1', 'update set a2 = "z"', 'update set a1 = a2 where NR == 1', 'select a1 + a2', 'select a1 where a2 is None', 'select top 1 a.x2']
    for k, mk in enumerate(frames):
        for q in queries:
            for as_join in (False, True):
                df = mk()
                before = cellsig(df)
                try:
                    if as_join:
                        rbql_pandas.query_dataframe('select a1, b2 left join B on a1 == b1', pd.DataFrame([['a', 'k']], columns=['u1', 'u2']), join_dataframe=df)
                    else:
                        rbql_pandas.query_dataframe(q, df)
                except Exception:  # noqa -- the outcome is not the subject here
                    pass
                run.traces += 1
                run.count(['pandas-missing', k, q, as_join], nontrivial=True)
                if cellsig(df) != before:
                    run.violation({'impl': 'py', 'backend': 'pandas', 'what': 'dataframe with missing values modified (cells, dtypes or labels)', 'frame': k, 'role': 'join' if as_join else 'input', 'query': q,
                                   'got': cellsig(df)[:2], 'want': before[:2]}, {'kind': 'pandas_missing', 'frame': k})


IDENT_CLASSES = {'letter': 'T', 'digit': '1', 'underscore': '_', 'semicolon': ';', 'dash': '-', 'quote': '"', 'paren': '(', 'space': ' ', 'star': '*', 'newline': '\n'}


def classify(ch):
    if ch.isalpha() and ch.isascii():
        return 'letter'
    if ch.isdigit() and ch.isascii():
        return 'digit'
    for k, v in IDENT_CLASSES.items():
        if ch == v:
            return k
    return 'other'


def sqlite_idents(run):
    """Hostile join-table identifiers in the query text; direct hostile table names through the API."""
    mods = impl.load()
    from rbql import rbql_sqlite
    assert rbql_sqlite.__file__.startswith(impl.REPO)
    d = tempfile.mkdtemp(prefix='rbqlverif_sql_')
    traces = []
    info = {}
    try:
        db = os.path.join(d, 't.db')
        con = sqlite3.connect(db)
        con.execute('CREATE TABLE T1 (n TEXT, m TEXT)')
        con.execute('CREATE TABLE T2 (k TEXT, v TEXT)')
        con.executemany('INSERT INTO T1 VALUES (?, ?)', [('x', '1'), ('y', '2')])
        con.executemany('INSERT INTO T2 VALUES (?, ?)', [('x', 'p'), ('z', 'q')])
        con.commit()
        con.close()
        sha0 = hashlib.sha256(open(db, 'rb').read()).hexdigest()
        alphabet = ['T', '2', '_', ';', '-', '"', '(', '*', 'é', '.', ',', '/', ':', '$']
        idents = set([''])
        for n in (1, 2, 3):
            for tup in itertools.product(alphabet, repeat=n):
                idents.add(''.join(tup))
        idents |= {'main.T2', 'T2.', '.T2', 'main.sqlite_master', 'T2;DROP TABLE T1', 'T2;DELETE FROM T1;--', 'T2 ', 'T2\n', 'T2--', 'T1', 'T2', 'sqlite_master', 'T2;', '"T2"', 'T2)', 'T2,T1', 'T2 WHERE 1=1', 'nosuchtable'}
        if run.tier == 'quick':
            idents = set(sorted(idents)[::7]) | {'T2;DROP TABLE T1', 'T2', 'T2\n', 'T2 ', 'T2;', '', 'main.T2', 'T2.', '.T2', 'T.2', 'T,2', 'T/2', 'T:2', 'T$2', 'T-2', 'T(2', 'T*2', 'T"2'}
        tid = 0
        for ident in sorted(idents):
            for mode in ('join', 'input'):
                if mode == 'join' and (ident == '' or any(c.isspace() for c in ident)):
                    continue        # white space ends the table identifier in the query grammar: such text is not one identifier
                tid += 1
                con = sqlite3.connect(db)
                log = []
                con.set_trace_callback(log.append)
                warnings = []
                outp = os.path.join(d, 'out.csv')
                err = None
                try:
                    if mode == 'join':
                        rbql_sqlite.query_sqlite_to_csv('select a.n, b.v join %s on a.n == b.k' % ident, con, 'T1', outp, ',', 'quoted', 'utf-8', warnings)
                    else:
                        rbql_sqlite.query_sqlite_to_csv('select a1', con, ident, outp, ',', 'quoted', 'utf-8', warnings)
                except Exception as e:  # noqa
                    err = type(e).__name__
                con.close()
                stmts = []
                for sql in log:
                    m = re.match(r'^SELECT \* FROM ([A-Za-z0-9_]*);$', sql)
                    if m and m.group(1) in (ident, 'T1'):
                        if m.group(1) == ident:
                            stmts.append('select_star_from_ident')
                        # the input table T1 of the join-mode query is not the identifier under test
                    else:
                        stmts.append('other')
                traces.append({'tid': tid, 'ident': [classify(c) for c in ident], 'statements': stmts})
                info[tid] = {'ident': ident, 'mode': mode, 'log': log, 'err': err}
                run.traces += 1
                run.count(['sql', mode, ident], nontrivial=any(classify(c) not in ('letter', 'digit', 'underscore') for c in ident))
                sha = hashlib.sha256(open(db, 'rb').read()).hexdigest()
                if sha != sha0:
                    run.violation({'impl': 'py', 'backend': 'sqlite', 'what': 'database file changed', 'ident': ident, 'mode': mode}, {'kind': 'sql_ident', 'ident': ident, 'mode': mode, 'log': log})
                    sha0 = sha
    finally:
        shutil.rmtree(d, ignore_errors=True)
    run.sample({'sql_ident': info[5]['ident'], 'mode': info[5]['mode'], 'statements_logged': info[5]['log'], 'outcome': info[5]['err']})
    rej = frontends.validate(run, 'sql', traces, 'hostile-identifiers')
    for tid in rej:
        i = info[tid]
        run.violation({'impl': 'py', 'backend': 'sqlite', 'what': 'statement log rejected by the SqlOk monitor', 'ident': i['ident'], 'mode': i['mode']}, {'kind': 'sql_ident', 'ident': i['ident'], 'mode': i['mode'], 'log': i['log']})
    ctl = core.Run(run.prop, run.tier, run.seed)
    if frontends.validate(ctl, 'sql', [{'tid': 1, 'ident': ['letter', 'semicolon'], 'statements': ['select_star_from_ident']}], 'control') != {1}:
        core.machinery_failure('SqlOk control trace accepted')


def check(run):
    quick = run.tier == 'quick'
    run.rule = ('lists / js arrays: TLC-emitted engine cases (SELECT incl. star forms and EXCEPT, UPDATE, joins, failing queries) with deep snapshots compared at every writer event and identity tests of written rows; '
                'pandas: the same cases as dataframes; sqlite: hostile identifiers (all strings <= 3 over 9 characters + injection strings) as join table in the query text and as table name, every SQL statement logged, '
                'database hashed; CSV: query_csv scenarios with hashes and open modes; non-trivial = >= 2 input records / hostile character in the identifier')
    run.assumptions = ['identity (`is` / ===) and deep equality are the witnesses of aliasing and modification']
    ec.spec_mutant(run, 'Q_C05swap', 'R_w2', 'alias_up_fields', maxA=1)
    ec.run_family(run, 'C06-update', 'Q_C05', 'R_q4' if quick else 'R_w2N', maxA=2, hdrmodes=(False, True))
    ec.run_family(run, 'C06-select-star-except', 'Q_C01a', 'R_q4', maxA=2)
    ec.run_family(run, 'C06-except', 'Q_C01exc', 'R_w3N', maxA=1 if quick else 2, hdrmodes=(False, True))
    ec.run_family(run, 'C06-failing', 'Q_C14', 'R_poison', maxA=2 if quick else 3)
    ec.run_family(run, 'C06-join', 'Q_C04pairs', 'R_q4', recsB='R_q4', maxA=2, maxB=2)
    ec.run_family(run, 'C06-update-join', 'Q_C05join', 'R_q4', recsB='R_q4', maxA=2, maxB=2)
    ec.run_family_js(run, 'C06-js-update', 'Q_C05', 'R_2x2', maxA=2, hdrmodes=(False, True))
    ec.run_family_js(run, 'C06-js-update-join', 'Q_C05join', 'R_2x2', recsB='R_2x2', maxA=2, maxB=2)
    ec.run_family_js(run, 'C06-js-select', 'Q_C01a', 'R_2x2', maxA=2)
    ec.run_family_js(run, 'C06-js-failing', 'Q_C14js', 'R_poison', maxA=2)
    pandas_missing_values(run)
    pandas_cases(run, 'C06-pandas-update', 'Q_C05', 'R_2x2', 2)
    pandas_cases(run, 'C06-pandas-select', 'Q_C01a', 'R_2x2', 2 if not quick else 1)
    sqlite_idents(run)
    frontends.fd_scenarios(run)
    run.exhaustive = True


def replay(path):
    with open(path) as f:
        rep = json.load(f)
    k = rep['case']['kind']
    if k in ('engine_case', 'engine_trace'):
        return ec.replay_file('C06', path)
    print(json.dumps(rep)[:3000])
    return 1
