"""C14 -- errors name the first offending record; warnings appear iff the anomaly occurred."""
from .. import enginecheck as ec


def check(run):
    quick = run.tier == 'quick'
    run.rule = ('case = (query with a poisoned expression in one clause {SELECT, WHERE, ORDER BY, GROUP BY, aggregate argument, UPDATE rhs, UPDATE target beyond NF, JOIN key beyond NF, '
                'UNNEST list} or a mistake in the query text / inconsistent input, table with the poison value at every position) enumerated by TLC; the expected error class, record number and '
                'field come from Ref (first offending record in processing order); replayed into rbql.query; class via exception_to_error_info, record number / field parsed from the message; '
                'parse errors must precede any write (TLC monitor); field-count warning numbers compared for header-less full scans; non-trivial = >= 2 input records and (>= 1 output row or an error)')
    run.assumptions = ['poison = a value-dependent raising expression whose own message has no digits']
    ec.run_family(run, 'C14-poison', 'Q_C14', 'R_poison', maxA=3 if quick else 4, opts={'warnings': True})
    ec.run_family(run, 'C14-ragged', 'Q_C14rag', 'R_w2' if not quick else 'R_q4', maxA=2 if quick else 3, opts={'warnings': True})
    if not quick:
        ec.run_family(run, 'C14-ragged-with-None', 'Q_C14ragN', 'R_w2N', maxA=3, opts={'warnings': True})
    ec.run_family(run, 'C14-ragged-incl-empty-record', 'Q_C14plain', 'R_w2N', maxA=3, opts={'warnings': True})
    ec.run_family(run, 'C14-join', 'Q_C14join', 'R_poison' if quick else 'R_w2', recsB='R_w2N' if not quick else 'R_q4', maxA=2, maxB=2, opts={'warnings': True})
    ec.run_family(run, 'C14-join-key-missing-in-short-record', 'Q_C04selQ', 'R_q4', recsB='R_q4', maxA=2, maxB=1, opts={'warnings': True})
    ec.run_family(run, 'C14-aggregate-misuse', 'Q_C03bad', 'R_num', maxA=2)
    ec.run_family(run, 'C14-text', 'Q_C14text', 'R_poison', maxA=2, hdrmodes=(False, True))
    ec.run_family(run, 'C14-text-join', 'Q_C14textjoin', 'R_2x2', recsB='R_2x2', maxA=1, maxB=1, hdrmodes=(False, True))
    # warnings that belong to the CSV layer, each reported iff the condition occurred: None written to CSV and the delimiter inside
    # simple-policy output (CsvCodec: flags compared with WriteTable's, exact for single-character delimiters), BOM and malformed
    # quoting (CsvReader / RefRead: bom and first-defective-line compared under every delivery schedule)
    from . import c10, c12
    c10.mc_and_replay(run, 'C14-none-and-separator-warnings', 'R_none', 2, ['simple', 'quoted', 'quoted_rfc'], 44, 0)
    # a delimiter of two DIFFERENT characters: fields that only glue together into a separator ("a," + ";b" under ",;") do not make the
    # output lossy and must not be reported; fields that contain it must be (DelimWarn counts separators in the joined line)
    c10.mc_and_replay(run, 'C14-separator-warning-two-character-delimiter', 'R_f2x2', 1, ['simple', 'quoted'], 44, 59)
    c10.mc_and_replay(run, 'C14-none-inside-list-cells', 'R_list', 1, ['simple', 'quoted'], 44, 0)
    c12.mc_and_replay(run, 'C14-bom-and-malformed-quoting', [97, 65279, 34, 10, 44], 3 if quick else 4, 'utf-8', policies=['quoted', 'quoted_rfc'], cmts=[0])
    run.exhaustive = True


def replay(path):
    return ec.replay_file('C14', path)
