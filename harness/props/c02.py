"""C02 -- ORDER BY, DISTINCT and TOP/LIMIT compose as sort, then dedup, then truncate; bounded streaming stops pulling."""
from .. import enginecheck as ec


def liveness(run):
    """Termination on unbounded input as a temporal property: cyclic (endless) iterator, weak fairness, no state constraint."""
    import os
    from .. import tlcrun, core
    d = tlcrun.new_scratch('c02live')
    cfg = ec.engine_cfg(os.path.join(d, 'live.cfg'), 'Q_C02live', 'R_live', maxA=2, emit=False, invariants=['Protocol'], properties=['Terminates'], cyclic=True, spec='FairSpec')
    res = tlcrun.run_tlc('MC_Engine', cfg, timeout=3600)
    run.add_tlc('MC_Engine:liveness-cyclic-input', res)
    mcfg = ec.engine_cfg(os.path.join(d, 'livemut.cfg'), 'Q_C02live', 'R_live', maxA=2, emit=False, mut='no_stop_on_false', invariants=[], properties=['Terminates'], cyclic=True, spec='FairSpec')
    mres = tlcrun.run_tlc('MC_Engine', mcfg, timeout=3600, expect_violation=True)
    if mres.violation is None:
        core.machinery_failure('liveness: the mutant that never sets stop_flag was not rejected')
    run.notes.setdefault('spec_mutants_rejected', []).append('RbqlEngine/no_stop_on_false (cyclic input, Terminates) -> ' + mres.violation)


def check(run):
    quick = run.tier == 'quick'
    run.rule = ('case = (query over {ORDER BY 1-2 keys asc/desc} x {none, DISTINCT, DISTINCT COUNT} x {none, TOP/LIMIT n} x {WHERE, JOIN, UNNEST}, table with duplicate keys) '
                'enumerated by TLC; replayed into rbql.query behind a counting iterator; rows compared with TLC\'s sort->dedup->truncate composition, number of get_record calls '
                'judged by the PullBound monitor; non-trivial = >= 2 input records and (>= 1 output row or an error)')
    run.assumptions = ['sort keys are non-None strings (None keys raise inside sorted(): observation I2)', 'weak reading of "stops pulling": stops at the record yielding the first candidate beyond the bound (DESIGN C02)']
    for mut in ('top_gt', 'desc_reverse_flag', 'uniq_keeps_last', 'no_stop_on_false'):
        ec.spec_mutant(run, 'Q_C02mut', 'R_2x2', mut, maxA=3)
    liveness(run)
    ec.run_family(run, 'C02-unbounded-replay', 'Q_C02live', 'R_live', maxA=3 if quick else 4, opts={'endless': True})
    ec.run_family(run, 'C02-main', 'Q_C02ok', 'R_2x2', maxA=2 if quick else 4, opts={'endless': True})
    if quick:
        ec.run_family(run, 'C02-3rec', 'Q_C02mut', 'R_2x2', maxA=4)
    ec.run_family(run, 'C02-two-digit-bounds', 'Q_C02bigok', 'R_one', maxA=12)
    ec.run_family(run, 'C02-none-vs-empty', 'Q_C02none', 'R_2x2E', maxA=2 if quick else 3)
    ec.run_family(run, 'C02-join', 'Q_C02joinok', 'R_2x2', recsB='R_2x2', maxA=2 if quick else 2, maxB=2 if quick else 3)
    # rbql-js/rbql.js is an anchor of this property too
    ec.run_family_js(run, 'C02-js-order-distinct-top', 'Q_C02ok', 'R_2x2', maxA=2)
    # random cross product of every query kind x join x fault plan over ragged tables (tlc -simulate, seeded by VERIF_SEED)
    ec.run_family(run, 'C02-random-cross-product', 'Q_MIX', 'R_w2', recsB='R_w2', maxA=3, maxB=2, hdrmodes=(False, True), breakpoints=(0, 0, 0, 1, 2), simulate=1200 if quick else 20000, opts={'sim_next': 'SimNext2'})
    run.exhaustive = True


def replay(path):
    return ec.replay_file('C02', path)
