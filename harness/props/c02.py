"""C02 -- ORDER BY, DISTINCT and TOP/LIMIT compose as sort, then dedup, then truncate; bounded streaming stops pulling."""
from .. import enginecheck as ec


def check(run):
    quick = run.tier == 'quick'
    run.rule = ('case = (query over {ORDER BY 1-2 keys asc/desc} x {none, DISTINCT, DISTINCT COUNT} x {none, TOP/LIMIT n} x {WHERE, JOIN, UNNEST}, table with duplicate keys) '
                'enumerated by TLC; replayed into rbql.query behind a counting iterator; rows compared with TLC\'s sort->dedup->truncate composition, number of get_record calls '
                'judged by the PullBound monitor; non-trivial = >= 2 input records and (>= 1 output row or an error)')
    run.assumptions = ['sort keys are non-None strings (None keys raise inside sorted(): observation I2)', 'weak reading of "stops pulling": stops at the record yielding the first candidate beyond the bound (DESIGN C02)']
    for mut in ('top_gt', 'desc_reverse_flag', 'uniq_keeps_last', 'no_stop_on_false'):
        ec.spec_mutant(run, 'Q_C02mut', 'R_2x2', mut, maxA=3)
    ec.run_family(run, 'C02-main', 'Q_C02ok', 'R_2x2', maxA=2 if quick else 4)
    if quick:
        ec.run_family(run, 'C02-3rec', 'Q_C02mut', 'R_2x2', maxA=4)
    ec.run_family(run, 'C02-join', 'Q_C02joinok', 'R_2x2', recsB='R_2x2', maxA=2 if quick else 2, maxB=2 if quick else 3)
    run.exhaustive = True


def replay(path):
    return ec.replay_file('C02', path)
