"""C10 -- CSV written by RBQL reads back as the identical table, in every dialect.

(A) TLC: CsvCodec -- writer machine = WriteTable; Representable(T) => RefRead(WriteTable(T)) = T without warnings,
    for every line separator; lossy output always warns.
(B) spec -> code: every emitted case: the real CSVWriter (rbql-py, and rbql-js through node) must emit exactly
    the text TLC computed and the same warning flags; the real readers must read that text back as TLC's RefRead
    (encodings None / utf-8 / latin-1; written by one port, read by the other).
(C) code -> spec: random tables over full Unicode / all 256 latin-1 code points written and read back by the
    real code, judged by TLC (CodecTrace).
"""
import io
import json
import os
import random

from .. import core, tlcrun, par, impl, node, messages
from ..text import s, cps, ss, cpss
from .c12 import run_reader

NONE = [1114112]
LINESEP = {'LF': '\n', 'CRLF': '\r\n', 'CR': '\r'}


def cell_py(c):
    if c == NONE:
        return None
    if c and c[0] == 1114113:           # a list cell: elements separated by 1114114, each text or None
        elems, cur = [], []
        for x in c[1:]:
            if x == 1114114:
                elems.append(cur)
                cur = []
            else:
                cur.append(x)
        if len(c) > 1:
            elems.append(cur)
        return [None if e == NONE else s(e) for e in elems]
    return s(c)


def table_py(T):
    return [[cell_py(c) for c in rec] for rec in T]


def py_write(mods, table, dlm, policy, linesep, encoding):
    rbql, eng, rcsv, cu = mods
    stream = io.StringIO(newline='') if encoding is None else io.BytesIO()
    res = {'error': None}
    try:
        w = rcsv.CSVWriter(stream, False, encoding, dlm, policy, line_separator=linesep)
        for rec in table:
            w.write([list(c) if isinstance(c, list) else c for c in rec])
        w.finish()
        warns = w.get_warnings()
        res['wnone'] = messages.has_kind(warns, 'none')
        res['wdelim'] = messages.has_kind(warns, 'separator')
        if encoding is None:
            res['text'] = stream.getvalue()
        else:
            w.stream.flush()
            res['bytes'] = stream.getvalue()
            res['text'] = res['bytes'].decode(encoding)
    except eng.RbqlIOHandlingError as e:
        res['error'] = str(e)
    except Exception as e:  # noqa -- a raw exception escaping the writer
        res['error'] = 'RAW ' + type(e).__name__ + ': ' + str(e)
    return res


def py_read(mods, text, dlm, policy, encoding, chunk_size=1024):
    if encoding is None:
        stream = io.StringIO(text, newline='')
    else:
        stream = io.BytesIO(text.encode(encoding))
    got, _ = run_reader(mods, stream, encoding, dlm, policy, 0, False, chunk_size)
    return got


def expected_read(rb):
    return {'recs': [ss(r) for r in rb['recs']], 'bom': rb['bom'], 'firstdef': rb['firstdef'], 'ragged': list(rb['ragged']), 'err': rb['err'], 'errnr': rb['errnr'], 'errnl': rb['errnl']}


def _replay(cases):
    mods = impl.load()
    out = []
    for case in cases:
        sigs = []
        T = table_py(case['T'])
        dlm = s(case['dlm'])
        pol = case['policy']
        ls = LINESEP[case['linesep']]
        base = {'impl': 'py', 'policy': pol, 'dlmlen': len(dlm), 'linesep': case['linesep']}
        want_text = s(case['text'])
        latin_ok = all(ord(ch) < 256 for ch in want_text) and all(ord(ch) < 256 for ch in dlm)
        runs = 0
        if pol == 'monocolumn' and any(len(rec) == 0 for rec in T):
            out.append((0, []))        # a record without any field has no monocolumn rendering (outside the statement; observation I8)
            continue
        for enc in (None, 'utf-8', 'latin-1'):
            if enc == 'latin-1' and not latin_ok:
                continue
            w = py_write(mods, T, dlm, pol, ls, enc)
            runs += 1
            if case['monoerr']:
                if not w['error']:
                    sigs.append(dict(base, what='monocolumn with several fields not refused', enc=str(enc)))
                continue
            if w['error']:
                sigs.append(dict(base, what='writer raised', enc=str(enc), got=w['error']))
                continue
            if w['text'] != want_text:
                sigs.append(dict(base, what='written text', enc=str(enc), got=w['text'], want=want_text))
                continue
            if w['wnone'] != case['wnone']:
                sigs.append(dict(base, what='None warning', enc=str(enc), got=w['wnone'], want=case['wnone']))
            if w['wdelim'] != case['wdelim']:
                sigs.append(dict(base, what='separator warning', enc=str(enc), got=w['wdelim'], want=case['wdelim']))
            # read back with the same dialect; BOM stripping is an utf-8 behaviour (spec: Enc = utf-8)
            if enc == 'utf-8':
                got = py_read(mods, w['text'], dlm, pol, enc)
                runs += 1
                exp = expected_read(case['readback'])
                if 'other_error' in got:
                    sigs.append(dict(base, what='reader raised', enc=str(enc), got=got['other_error']))
                elif got != exp:
                    sigs.append(dict(base, what='read back', enc=str(enc), got=got, want=exp))
                elif case['representable'] and got['recs'] != [ss(r) for r in case['expected']]:
                    sigs.append(dict(base, what='representable table did not round-trip', enc=str(enc), got=got['recs']))
                # the written text read back through a small buffer as well: every line separator must also be recognised when it falls on
                # the last character of the reader's buffer (a CR there needs the one-character look-ahead), "whatever line separator is used"
                if not sigs and want_text:
                    cs = 1 + (len(want_text) + len(T)) % 3
                    got2 = py_read(mods, w['text'], dlm, pol, enc, chunk_size=cs)
                    runs += 1
                    if got2 != got:
                        sigs.append(dict(base, what='read back through a buffer of %d characters differs from the whole read' % cs, enc=str(enc), got=got2, want=got))
            elif enc is None and want_text:
                # a text stream without newline translation (the bytes paths go through TextIOWrapper, which turns CR and CRLF into LF before
                # the reader sees them): whole read against a read through a buffer of 1..3 characters
                cs = 1 + (len(want_text) + len(T)) % 3
                gw = py_read(mods, w['text'], dlm, pol, None)
                gs = py_read(mods, w['text'], dlm, pol, None, chunk_size=cs)
                runs += 2
                if gs != gw:
                    sigs.append(dict(base, what='text stream read back through a buffer of %d characters differs from the whole read' % cs, enc='None', got=gs, want=gw))
        out.append((runs, sigs[:3]))
    return out


def codec_cfg(path, recs, maxrecs, policies, a, b, emit=True):
    consts = {'Recs': None}
    lines = ['INIT WInit', 'NEXT WNext', 'CONSTANTS', '  Recs <- %s' % recs, '  MaxRecs = %d' % maxrecs,
             '  WPolicies = {%s}' % ', '.join('"%s"' % p for p in policies), '  LineSeps = {"LF", "CRLF", "CR"}',
             '  DlmA = %d' % a, '  DlmB = %d' % b, '  EmitCases = %s' % ('TRUE' if emit else 'FALSE')]
    # Tight (the characterisation excludes nothing that round-trips) holds for single-character delimiters only:
    # 'partial overlap with a multi-character delimiter' is deliberately conservative
    for inv in ('MachineIsSpec', 'MonoErrIff', 'RoundTrip', 'LossIsLoud', 'DelimWarnExact', 'WEmit') + (('Tight',) if b == 0 else ()):
        lines.append('INVARIANT ' + inv)
    lines.append('CHECK_DEADLOCK FALSE')
    with open(path, 'w') as f:
        f.write('\n'.join(lines) + '\n')
    return path


def js_cases(run, cases):
    """The same cases through rbql-js: CSVWriter text / warnings, and the JS reader on the written bytes (C18)."""
    reqs = []
    idx = []
    for i, case in enumerate(cases):
        if case['monoerr'] or (case['policy'] == 'monocolumn' and any(len(rec) == 0 for rec in case['T'])):
            continue
        reqs.append({'op': 'write', 'table': table_py(case['T']), 'dlm': s(case['dlm']), 'policy': case['policy'], 'linesep': LINESEP[case['linesep']], 'encoding': 'utf-8'})
        idx.append(i)
    resp = node.run_batch(reqs, nproc=par.NPROC)
    reads = []
    ridx = []
    for i, r in zip(idx, resp):
        case = cases[i]
        base = {'impl': 'js', 'policy': case['policy'], 'dlmlen': len(case['dlm']), 'linesep': case['linesep']}
        run.traces += 1
        if r.get('error'):
            run.violation(dict(base, what='writer raised', got=r['error']), {'kind': 'codec_case', 'case': case})
            continue
        text = bytes(r['bytes']).decode('utf-8')
        if text != s(case['text']):
            run.violation(dict(base, what='written text', got=text, want=s(case['text'])), {'kind': 'codec_case', 'case': case})
            continue
        wn = messages.has_kind(r['warnings'], 'none')
        wd = messages.has_kind(r['warnings'], 'separator')
        if wn != case['wnone']:
            run.violation(dict(base, what='None warning', got=wn, want=case['wnone']), {'kind': 'codec_case', 'case': case})
        zero_field = any(len(rec) == 0 for rec in case['T'])
        if len(case['dlm']) == 1 and not zero_field and wd != case['wdelim']:
            run.violation(dict(base, what='separator warning', got=wd, want=case['wdelim']), {'kind': 'codec_case', 'case': case})
        reads.append({'op': 'read', 'chunks': [r['bytes']], 'encoding': 'utf-8', 'dlm': s(case['dlm']), 'policy': case['policy'], 'mode': 'stream'})
        ridx.append(i)
    resp2 = node.run_batch(reads, nproc=par.NPROC)
    from .c20 import js_result
    for i, r in zip(ridx, resp2):
        case = cases[i]
        base = {'impl': 'js', 'policy': case['policy'], 'dlmlen': len(case['dlm']), 'linesep': case['linesep']}
        run.traces += 1
        got = js_result(r)
        exp = expected_read(case['readback'])
        if got != exp:
            run.violation(dict(base, what='read back (js reader)', got=got, want=exp), {'kind': 'codec_case', 'case': case})


def mc_and_replay(run, label, recs, maxrecs, policies, a, b):
    d = tlcrun.new_scratch('c10')
    cfg = codec_cfg(os.path.join(d, label + '.cfg'), recs, maxrecs, policies, a, b)
    res = tlcrun.run_tlc('MC_Codec', cfg, coverage=(run.tier != 'quick'), timeout=7200, heap='24g')
    run.add_tlc('MC_Codec:' + label, res)
    if not res.cases:
        core.machinery_failure('no codec cases for ' + label)
    run.sample({'config': label, 'case': {k: res.cases[len(res.cases) // 2][k] for k in ('T', 'dlm', 'policy', 'linesep', 'text', 'representable')}})
    out = par.pmap(_replay, res.cases, chunk=1500)
    for case, (runs, sigs) in zip(res.cases, out):
        run.traces += runs
        flat = [c for rec in case['T'] for f in rec for c in f]
        run.count([label, case['policy'], case['linesep'], case['T']], nontrivial=(34 in flat or 10 in flat or 13 in flat or any(c in flat for c in case['dlm'])), n=runs)
        for sig in sigs:
            run.violation(sig, {'kind': 'codec_case', 'case': case})
    js_cases(run, res.cases)
    return res.cases


UNI = ['a', 'b', 'Z', '0', '"', '"', ',', ';', '\t', '|', ' ', ' ', '\n', '\r', 'é', 'ß', 'Ж', '中', '☃', '\U0001F600', '\xa0', '\xff', '\x00', '\x7f', "'", '\\', '#']


def _record_random(jobs):
    mods = impl.load()
    out = []
    for tid, T, dlm, pol, lsname, enc in jobs:
        w = py_write(mods, [list(r) for r in T], dlm, pol, LINESEP[lsname], enc)
        rec = {'tid': tid, 'T': [[cps(c) if c is not None else NONE for c in r] for r in T], 'dlm': cps(dlm), 'policy': pol, 'linesep': lsname, 'enc': str(enc),
               'werr': bool(w['error']), 'text': [], 'wnone': False, 'wdelim': False,
               'readback': {'recs': [], 'bom': False, 'firstdef': 0, 'ragged': [], 'err': False, 'errnr': 0, 'errnl': 0}, 'readfail': False}
        if not w['error']:
            rec['text'] = cps(w['text'])
            rec['wnone'] = w['wnone']
            rec['wdelim'] = w['wdelim']
            got = py_read(mods, w['text'], dlm, pol, enc)
            if 'other_error' in got:
                rec['readfail'] = True
            else:
                got = dict(got)
                got['recs'] = [cpss(r) for r in got['recs']]
                rec['readback'] = got
        out.append(rec)
    return out


def random_traces(run, n):
    rnd = random.Random(run.seed + 10)
    jobs = []
    for tid in range(1, n + 1):
        enc = rnd.choice([None, 'utf-8', 'latin-1'])
        pol = rnd.choice(['simple', 'quoted', 'quoted_rfc', 'whitespace', 'monocolumn'])
        dlm = ' ' if pol == 'whitespace' else rnd.choice([',', ';', '\t', '|', '::', ':;', '¦'])
        if enc == 'latin-1':
            alphabet = [chr(rnd.randrange(256)) for _ in range(12)] + ['"', dlm[0], ' ', '\n', '\r', 'a']
        else:
            alphabet = UNI + [dlm[0], dlm[-1]]
        nrec = rnd.randint(0, 4)
        nf = 1 if pol == 'monocolumn' else rnd.randint(1, 4)
        T = []
        for _ in range(nrec):
            rec = []
            for _ in range(nf if rnd.random() < 0.8 else rnd.randint(1, 4)):
                r = rnd.random()
                if r < 0.04:
                    rec.append(None)
                else:
                    rec.append(''.join(rnd.choice(alphabet) for _ in range(rnd.choice([0, 1, 2, 3, 5, 8]))))
            T.append(rec)
        jobs.append((tid, T, dlm, pol, rnd.choice(['LF', 'CRLF', 'CR']), enc))
    return par.pmap(_record_random, jobs, chunk=1000)


def validate_traces(run, traces, label):
    d = tlcrun.new_scratch('c10trace')
    path = os.path.join(d, 'traces.ndjson')
    with open(path, 'w') as f:
        for t in traces:
            f.write(json.dumps(t) + '\n')
    consts = {'DlmA': 44, 'DlmB': 0, 'EmitCases': 'FALSE', 'Recs': '{}', 'MaxRecs': 0, 'WPolicies': '{}', 'LineSeps': '{}'}
    cfg = tlcrun.write_cfg(os.path.join(d, 'trace.cfg'), constants=consts, init='TInit', next_='TNext', invariants=['Judge'])
    res = tlcrun.run_tlc('CodecTrace', cfg, workers=1, env={'TRACE_FILE': path}, timeout=7200)
    run.add_tlc('CodecTrace:' + label, res)
    if not any(c.get('consumed') == len(traces) for c in res.cases):
        core.machinery_failure('codec trace batch not consumed')
    by = {t['tid']: t for t in traces}
    rej = {}
    for c in res.cases:
        if 'reject' in c:
            t = by[c['reject']]
            rej[c['reject']] = c
            run.violation({'impl': 'py', 'what': 'trace rejected by CodecTrace', 'policy': t['policy'], 'enc': t['enc'], 'dlmlen': len(t['dlm']), 'reasons': ','.join(sorted(k for k, v in c['reasons'].items() if not v))},
                          {'kind': 'codec_trace', 'trace': t})
    for t in traces:
        run.traces += 1
        run.count(['trace', t['policy'], t['enc'], t['linesep'], t['T']], nontrivial=len(t['T']) >= 2)
    return rej


def check(run):
    quick = run.tier == 'quick'
    run.rule = ('case = (table, delimiter, policy, line separator) with every table within the bound over {quote, delimiter chars, space, CR, LF, other} (None cells and BOM in dedicated configs), '
                'emitted by TLC from CsvCodec with the text WriteTable prescribes and its RefRead; replayed into CSVWriter / CSVRecordIterator of rbql-py under encodings None, utf-8, latin-1 and into '
                'rbql-js (writer text, warnings, reader on the written bytes); random Unicode / latin-1 tables recorded from the real code and judged by TLC; '
                'non-trivial = some field contains a quote, delimiter character or line break (traces: >= 2 records)')
    run.assumptions = ['comment prefix off', 'multi-character delimiters contain no space or quote']
    pol4 = ['simple', 'quoted', 'quoted_rfc', 'monocolumn']
    mc_and_replay(run, 'comma-1rec-fields<=2', 'R_f2x2', 1, pol4, 44, 0)
    mc_and_replay(run, 'colon2-1rec-fields<=2', 'R_f2x2', 1, pol4, 58, 58)
    mc_and_replay(run, 'comma-semicolon-1rec-fields<=2', 'R_f2x2', 1, ['simple', 'quoted', 'quoted_rfc'], 44, 59)
    mc_and_replay(run, 'space-whitespace', 'R_f2x2', 1, ['simple', 'quoted', 'quoted_rfc', 'whitespace'], 32, 0)
    mc_and_replay(run, 'comma-2rec-fields<=1', 'R_f1x2', 2, pol4, 44, 0)
    mc_and_replay(run, 'none-cells', 'R_none', 2, ['simple', 'quoted', 'quoted_rfc'], 44, 0)
    mc_and_replay(run, 'list-cells', 'R_list', 1, ['simple', 'quoted'], 44, 0)
    mc_and_replay(run, 'list-cells-pipe-delimiter', 'R_list', 1, ['simple', 'quoted'], 124, 0)
    mc_and_replay(run, 'bom', 'R_bom', 1, ['simple', 'quoted', 'quoted_rfc'], 44, 0)
    if not quick:
        mc_and_replay(run, 'comma-1rec-fields<=3-nobreak', 'R_f3x2nb', 1, ['simple', 'quoted', 'quoted_rfc'], 44, 0)
        mc_and_replay(run, 'tab-2rec', 'R_f1x2', 2, pol4, 9, 0)
        mc_and_replay(run, 'nonascii-delim', 'R_f2x2', 1, pol4, 166, 0)
    run.exhaustive = True
    traces = random_traces(run, 3000 if quick else 40000)
    run.sample({'trace': {'T': table_py(traces[3]['T']), 'dlm': s(traces[3]['dlm']), 'policy': traces[3]['policy'], 'enc': traces[3]['enc'], 'text': s(traces[3]['text'])}})
    validate_traces(run, traces, 'random')
    ctl = core.Run(run.prop, run.tier, run.seed)
    bad = dict([t for t in traces if t['text'] and not t['werr']][0])
    bad['text'] = bad['text'] + [120]
    bad['tid'] = 1
    if not validate_traces(ctl, [bad], 'control'):
        core.machinery_failure('corrupted codec trace accepted')
    run.notes['corrupted_trace_rejected'] = True


def replay(path):
    with open(path) as f:
        rep = json.load(f)
    run = core.Run('C10', 'quick', 0)
    c = rep['case']
    if c['kind'] == 'codec_case':
        for runs, sigs in _replay([c['case']]):
            for sig in sigs:
                run.violation(sig, c)
        js_cases(run, [c['case']])
    else:
        validate_traces(run, [c['trace']], 'replay')
    return run.finish()
