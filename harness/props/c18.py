"""C18 -- the Python and JavaScript implementations agree on the CSV dialect and headers.

Both ports must conform to the SAME specifications (CsvDialect, CsvText/RefRead, CsvCodec, HeaderRef of
RbqlEngine); agreement is the corollary and is also checked directly (Python result == JavaScript result),
so that a place where a specification is deliberately loose cannot hide a disagreement.
"""
import io
import json
import os

from .. import core, tlcrun, par, impl, node, engine
from .. import enginecheck as ec
from ..text import s, ss, cps
from . import c11, c12, c10, c20


def _py_split_quote(cases):
    rbql, eng, rcsv, cu = impl.load()
    out = []
    for case in cases:
        line = s(case['line'])
        dlm = s(case['dlm'])
        r = c11.py_split_all(cu, line, dlm)
        r['quote'] = cu.quote_field(line, dlm)
        r['rfcquote'] = cu.rfc_quote_field(line, dlm)
        out.append(r)
    return out


def dialect_agreement(run, name, alphabet, a, b, maxlen):
    d = tlcrun.new_scratch('c18d')
    cfg = c11.scanner_cfg(os.path.join(d, name + '.cfg'), alphabet, a, b, maxlen)
    res = tlcrun.run_tlc('CsvScanner', cfg)
    run.add_tlc('CsvScanner:%s:len<=%d' % (name, maxlen), res)
    cases = res.cases
    py = par.pmap(_py_split_quote, cases, chunk=3000)
    js = node.run_batch([{'op': 'split', 'line': s(c['line']), 'dlm': s(c['dlm']), 'policies': ['quoted', 'simple', 'whitespace', 'monocolumn']} for c in cases], nproc=par.NPROC)
    for case, p, j in zip(cases, py, js):
        run.traces += 2
        run.count(['split', case['dlm'], case['line']], nontrivial=(34 in case['line']))
        sigs = []
        c11.judge_case(case, p, 'py', sigs)
        c11.judge_case(case, j, 'js', sigs)
        for key in ('quoted', 'quoted_p', 'simple', 'whitespace', 'whitespace_p', 'monocolumn'):
            if p.get(key) != j.get(key):
                sigs.append({'impl': 'py-vs-js', 'entry': 'smart_split', 'policy': key, 'what': 'ports disagree', 'dlmlen': len(case['dlm']), 'got': [p.get(key), j.get(key)]})
        for key, want in (('quote', s(case['quote'])), ('rfcquote', s(case['rfcquote']))):
            if p[key] != want:
                sigs.append({'impl': 'py', 'entry': key, 'what': 'quoting', 'got': p[key], 'want': want, 'dlmlen': len(case['dlm'])})
            if j.get(key) != want:
                sigs.append({'impl': 'js', 'entry': key, 'what': 'quoting', 'got': j.get(key), 'want': want, 'dlmlen': len(case['dlm'])})
        for sig in sigs:
            run.violation(sig, {'kind': 'dialect_case', 'case': case})
    run.sample({'dialect_case': {'line': s(cases[len(cases) // 3]['line']), 'dlm': s(cases[0]['dlm'])}})


def _py_read(cases):
    mods = impl.load()
    out = []
    for case in cases:
        text = s(case['text'])
        got, _ = c12.run_reader(mods, io.BytesIO(text.encode('utf-8')), 'utf-8', s(case['dlm']), case['policy'], case['cmt'], False, 1024)
        out.append(got)
    return out


def reader_agreement(run, name, alphabet, maxlen):
    d = tlcrun.new_scratch('c18r')
    cfg = c12.reader_cfg(os.path.join(d, name + '.cfg'), alphabet, maxlen, c12.ALL_POL, [0, 35], 'utf-8', progress=False)
    res = tlcrun.run_tlc('CsvReader', cfg, timeout=3600, heap='24g')
    run.add_tlc('CsvReader:%s:len<=%d' % (name, maxlen), res)
    cases = res.cases
    py = par.pmap(_py_read, cases, chunk=2000)
    reqs = []
    for c in cases:
        data = list(s(c['text']).encode('utf-8'))
        base = {'op': 'read', 'encoding': 'utf-8', 'dlm': s(c['dlm']), 'policy': c['policy'], 'comment': (chr(c['cmt']) if c['cmt'] else None)}
        reqs.append(dict(base, chunks=[data], mode='bulk'))
        reqs.append(dict(base, chunks=[data], mode='stream', consume_first=True))
    js = node.run_batch(reqs, nproc=par.NPROC, timeout=7200)
    for k, (case, p) in enumerate(zip(cases, py)):
        exp = c12.expected(case, False)[0]
        run.count(['read', case['policy'], case['cmt'], case['text']], nontrivial=(len(case['text']) >= 2))
        for mode, r in (('bulk', js[2 * k]), ('stream', js[2 * k + 1])):
            g = c20.js_result(r)
            run.traces += 1
            if 'other_error' in g or 'other_error' in p:
                run.violation({'impl': 'py-vs-js', 'entry': 'reader', 'what': 'unexpected error', 'policy': case['policy'], 'mode': mode, 'got': [p, g]}, {'kind': 'reader_case', 'case': case})
                continue
            if exp['err']:
                ok_js = g['err'] and g['errnr'] == exp['errnr'] and g['errnl'] == exp['errnl']
                ok_py = p['err'] and p['errnr'] == exp['errnr'] and p['errnl'] == exp['errnl']
            else:
                ok_js = g == exp
                ok_py = p == exp
            if not ok_py:
                run.violation({'impl': 'py', 'entry': 'reader', 'what': 'differs from RefRead', 'policy': case['policy'], 'cmt': case['cmt'], 'got': p, 'want': exp}, {'kind': 'reader_case', 'case': case})
            if not ok_js:
                run.violation({'impl': 'js', 'entry': 'reader', 'what': 'differs from RefRead', 'policy': case['policy'], 'cmt': case['cmt'], 'mode': mode, 'got': g, 'want': exp}, {'kind': 'reader_case', 'case': case})
            if (p['err'], p['errnr'], p['errnl']) != (g['err'], g['errnr'], g['errnl']) or (not p['err'] and p != g):
                run.violation({'impl': 'py-vs-js', 'entry': 'reader', 'what': 'ports disagree', 'policy': case['policy'], 'cmt': case['cmt'], 'mode': mode, 'got': [p, g]}, {'kind': 'reader_case', 'case': case})
        run.traces += 1


def header_agreement(run, label, queries, recsA, maxA, recsB='R_none', maxB=0):
    """Language-neutral select lists x header/no header: both ports must derive HeaderRef's header (and hence the same one)."""
    d = tlcrun.new_scratch('c18h')
    cfg = ec.engine_cfg(os.path.join(d, label + '.cfg'), queries, recsA, recsB, maxA, maxB, (False, True), (0,))
    res = tlcrun.run_tlc('MC_Engine', cfg, timeout=3600)
    run.add_tlc('MC_Engine:' + label, res)
    mods = impl.load()
    reqs = []
    pyobs = []
    texts = []
    for case in res.cases:
        # varied spellings of the field references (aN / a[N] / a.name / a["name"]): all must name the column alike in both ports
        sp = engine.Spelling(ec.case_key(case) + str(run.seed))
        pq = engine.render_query(case, sp, 'py')
        jq = engine.render_query(case, engine.Spelling(ec.case_key(case) + 'js' + str(run.seed)), 'js')
        pyobs.append(engine.run_case_py(mods, case, pq))
        reqs.append(engine.js_request(case, jq))
        texts.append((pq, jq))
    js = node.run_batch(reqs, nproc=par.NPROC)
    for case, po, r, (pq, jq) in zip(res.cases, pyobs, js, texts):
        jo = engine.js_observation(r)
        run.traces += 2
        run.count(['hdr', ec.case_key(case)], nontrivial=bool(case['expect']['hashdr']) or bool(case['expect']['err']))
        for sig in engine.judge(case, po, pq):
            run.violation(dict(sig, impl='py'), {'kind': 'engine_case', 'case': case, 'opts': {'spelling': False}})
        for sig in engine.judge(case, jo, jq):
            run.violation(dict(sig, impl='js'), {'kind': 'engine_case_js', 'case': case})
        ph = po['hdr'] if po['hdr'] else None
        jh = jo['hdr'] if jo['hdr'] else None
        if po['err'] is None and jo['err'] is None and ph != jh:
            run.violation({'impl': 'py-vs-js', 'what': 'ports derive different output headers', 'got': [ph, jh], 'query': pq}, {'kind': 'engine_case', 'case': case, 'opts': {'spelling': False}})
    run.sample({'header_case': {'py_query': texts[len(texts) // 2][0], 'js_query': texts[len(texts) // 2][1], 'expect_hdr': res.cases[len(texts) // 2]['expect']['hdr']}})


def codec_agreement(run, label, recs, maxrecs, policies, a, b):
    """A table written by either port is read back identically by the other: both writers must emit TLC's text, both readers must read it as RefRead."""
    c10.mc_and_replay(run, label, recs, maxrecs, policies, a, b)


def check(run):
    quick = run.tier == 'quick'
    run.rule = ('lines (CsvScanner), files (CsvReader) and tables (CsvCodec) enumerated by TLC up to the bound over {a, quote, delimiter, space, LF, CR, #} x policies x comment prefix, each run through rbql-py AND rbql-js: '
                'split fields / warning flag / preserved spans / quote_field / rfc_quote_field, reader records / warnings / errors (bulk and stream), writer text and warnings; every result compared with the TLA+ value and '
                'the two ports compared with each other; language-neutral select lists x header/no header compared with HeaderRef and with each other; '
                'non-trivial = line with a quote / file of >= 2 characters / list that yields a header')
    run.assumptions = ['error messages are compared through their class and the record / line numbers they cite']
    dialect_agreement(run, 'comma', [34, 44, 32, 97], 44, 0, 6 if quick else 8)
    dialect_agreement(run, 'space', [34, 32, 97], 32, 0, 7 if quick else 9)
    dialect_agreement(run, 'colon2', [34, 58, 32, 97], 58, 58, 5 if quick else 7)
    dialect_agreement(run, 'tab', [34, 9, 32, 97], 9, 0, 5 if quick else 7)
    dialect_agreement(run, 'comma-with-tab', [34, 44, 9, 97], 44, 0, 5 if quick else 7)
    reader_agreement(run, 'base7', [97, 34, 44, 10, 13, 35, 32], 4 if quick else 6)
    codec_agreement(run, 'codec-comma', 'R_f2x2', 1, ['simple', 'quoted', 'quoted_rfc', 'monocolumn'], 44, 0)
    codec_agreement(run, 'codec-2rec', 'R_f1x2', 2, ['simple', 'quoted', 'quoted_rfc'], 44, 0)
    header_agreement(run, 'headers', 'Q_C07', 'R_2x2', 1)
    header_agreement(run, 'headers-join', 'Q_C07join', 'R_2x2', 1, recsB='R_2x2', maxB=1)
    run.exhaustive = True


def replay(path):
    with open(path) as f:
        rep = json.load(f)
    print(json.dumps(rep['signature'])[:2000])
    k = rep['case']['kind']
    if k == 'dialect_case':
        run = core.Run('C18', 'quick', 0)
        c11.replay_cases(run, [rep['case']['case']])
        return run.finish()
    if k == 'engine_case':
        return ec.replay_file('C18', path)
    return 1
