"""C17 -- like(text, pattern) implements SQL LIKE exactly.

(A) TLC: Like -- position-set automaton == LikeRef for every pattern/text pair within the bound.
(B) spec -> code: every emitted pair, with the two 'ordinary' classes instantiated by every ordered pair of
    characters from {a, b, ., *, \\, [, (, ^, $, +, ?, |, ...} in rotation, evaluated as `select like(a1, a2)`
    through rbql.query_table (public path) in rbql-py and rbql-js, and through like_to_regex + re when present.
(C) code -> spec: random longer Unicode pairs evaluated by the real code, judged by TLC (LikeTrace).
"""
import json
import os
import random
import re

from .. import core, tlcrun, par, impl, node
from ..text import s, cps

ORD = ['a', 'b', '.', '*', '\\', '[', '(', '^', '$', '+', '?', '|', ')', ']', '{', '}', '-', "'", '"', ' ', 'é', '中', '\U0001F600']
PAIRS = [(x, y) for x in ORD for y in ORD if x != y]


def instantiate(cp_seq, x, y):
    return ''.join({37: '%', 95: '_', 120: x, 121: y}[c] for c in cp_seq)


def _eval_py(jobs):
    """jobs: list of (text, pattern). Returns [(via_query, via_regex)]."""
    rbql, eng, rcsv, cu = impl.load()
    out_q = []
    for part in par.chunks(jobs, 400):
        table = [[t, p] for t, p in part]
        res = []
        warnings = []
        try:
            rbql.query_table('select like(a1, a2)', table, res, warnings)
            out_q.extend(r[0] for r in res)
        except Exception:  # noqa
            # a pair that makes like() raise fails the whole batch: evaluate the pairs one by one, the exception is that pair's result
            for row in table:
                res = []
                try:
                    rbql.query_table('select like(a1, a2)', [row], res, [])
                    out_q.append(res[0][0])
                except Exception as e:  # noqa
                    out_q.append('raised ' + type(e).__name__ + ': ' + str(e)[:80])
    out = []
    has_l2r = hasattr(eng, 'like_to_regex')
    for (t, p), q in zip(jobs, out_q):
        rx = None
        if has_l2r:
            try:
                rx = re.match(eng.like_to_regex(p), t) is not None
            except Exception as e:  # noqa
                rx = 'raised ' + type(e).__name__ + ': ' + str(e)[:80]
        out.append((q, rx))
    return out


def eval_js(jobs):
    reqs = []
    for part in par.chunks(jobs, 400):
        reqs.append({'op': 'query_table', 'query': 'select like(a1, a2)', 'input': [[t, p] for t, p in part]})
    resp = node.run_batch(reqs, nproc=par.NPROC)
    out = []
    for req, r in zip(reqs, resp):
        if r.get('error'):
            # one by one: the exception is the result of the pair that raises it
            single = node.run_batch([{'op': 'query_table', 'query': 'select like(a1, a2)', 'input': [row]} for row in req['input']], nproc=par.NPROC)
            for r1 in single:
                if r1.get('error'):
                    out.append('raised ' + r1['error']['cls'] + ': ' + r1['error']['msg'][:80])
                else:
                    out.append(r1['out'][0][0][1] if r1['out'][0][0][0] == 'b' else r1['out'][0][0])
            continue
        out.extend(row[0][1] if row[0][0] == 'b' else row[0] for row in r['out'])
    return out


def check(run):
    quick = run.tier == 'quick'
    maxlen = 4 if quick else 5
    run.rule = ('case = (pattern, text) with every pair of length <= %d over the class alphabet {%%, _, x, y} emitted by TLC with LikeRef; x, y instantiated by ordered pairs from 23 characters (all regex metacharacters, quotes, space, '
                'non-ASCII, astral) in rotation so that every metacharacter meets every position; evaluated as `select like(a1, a2)` through query_table of rbql-py and rbql-js and through like_to_regex + re; random longer Unicode pairs '
                'judged by TLC; non-trivial = pattern contains %% or _ and text is non-empty' % maxlen)
    run.assumptions = ['single-line texts (as quantified): `$` also accepts a trailing line feed (observation I4)', 'characters other than % and _ are interchangeable for LIKE (checked by the rotation and by the random Unicode traces)']
    d = tlcrun.new_scratch('c17')
    for mut in ('underscore_optional', 'pct_needs_one'):
        consts = {'Alphabet': '{37, 95, 120, 121}', 'MaxLen': 3, 'EmitCases': 'FALSE', 'MUT': '"%s"' % mut}
        mres = tlcrun.run_tlc('Like', tlcrun.write_cfg(os.path.join(d, mut + '.cfg'), constants=consts, invariants=['AutomatonIsLike', 'PrefixInvariant']), expect_violation=True)
        if mres.violation is None:
            core.machinery_failure('Like mutant %s not rejected' % mut)
        run.notes.setdefault('spec_mutants_rejected', []).append('Like/%s -> %s' % (mut, mres.violation))
    consts = {'Alphabet': '{37, 95, 120, 121}', 'MaxLen': maxlen, 'EmitCases': 'TRUE', 'MUT': '""'}
    res = tlcrun.run_tlc('Like', tlcrun.write_cfg(os.path.join(d, 'like.cfg'), constants=consts, invariants=['AutomatonIsLike', 'PrefixInvariant', 'Emit']), coverage=not quick, timeout=7200, heap='24g')
    run.add_tlc('Like:len<=%d' % maxlen, res)
    n = sum(4 ** k for k in range(maxlen + 1))
    if len(res.cases) != n * n:
        core.machinery_failure('expected %d pairs, got %d' % (n * n, len(res.cases)))
    rnd = random.Random(run.seed)
    jobs = []
    for i, c in enumerate(res.cases):
        x, y = PAIRS[(i * 7 + rnd.randrange(3)) % len(PAIRS)]
        jobs.append((instantiate(c['text'], x, y), instantiate(c['pat'], x, y)))
    run.sample({'like_case': {'pattern': jobs[len(jobs) // 2][1], 'text': jobs[len(jobs) // 2][0], 'expect': res.cases[len(jobs) // 2]['like']}})
    py = par.pmap(_eval_py, jobs, chunk=8000)
    js = eval_js(jobs if not quick else jobs[::3])
    jsmap = dict(zip(range(0, len(jobs), 1 if not quick else 3), js))
    for i, (c, (t, p), (q, rx)) in enumerate(zip(res.cases, jobs, py)):
        run.traces += 1
        run.count(['like', p, t], nontrivial=(('%' in p or '_' in p) and t != ''))
        want = c['like']
        if q is not want:
            run.violation({'impl': 'py', 'entry': 'select like(a1, a2)', 'what': 'like result', 'got': q, 'want': want, 'pattern': p, 'text': t}, {'kind': 'like_pair', 'pattern': p, 'text': t, 'want': want})
        if rx is not None and rx != want:
            run.violation({'impl': 'py', 'entry': 'like_to_regex', 'what': 'like result', 'got': rx, 'want': want, 'pattern': p, 'text': t}, {'kind': 'like_pair', 'pattern': p, 'text': t, 'want': want})
        if i in jsmap:
            run.traces += 1
            if jsmap[i] is not want:
                run.violation({'impl': 'js', 'entry': 'select like(a1, a2)', 'what': 'like result', 'got': jsmap[i], 'want': want, 'pattern': p, 'text': t}, {'kind': 'like_pair', 'pattern': p, 'text': t, 'want': want})
    run.exhaustive = True
    # (C) random longer Unicode pairs -> real code -> TLC
    alphabet = ORD + ['%', '%', '_', '_', 'x', 'y', 'z', 'Ж', '\t']
    rjobs = []
    for _ in range(3000 if quick else 50000):
        t = ''.join(rnd.choice(alphabet) for _ in range(rnd.randint(0, 12)))
        if rnd.random() < 0.5:
            # a pattern derived from the text so that matches are frequent
            p = ''.join(('%' if rnd.random() < 0.2 else '_' if rnd.random() < 0.2 else ch) for ch in t)
            if rnd.random() < 0.5:
                p = p.replace('%_', '%', 1)
        else:
            p = ''.join(rnd.choice(alphabet) for _ in range(rnd.randint(0, 8)))
        rjobs.append((t, p))
    rpy = par.pmap(_eval_py, rjobs, chunk=5000)
    rjs = eval_js(rjobs)
    traces = []
    for tid, ((t, p), (q, rx), j) in enumerate(zip(rjobs, rpy, rjs), 1):
        for impl_, got in (('py', q), ('js', j)):
            if isinstance(got, str):        # like() raised: LIKE is total
                run.violation({'impl': impl_, 'entry': 'select like(a1, a2)', 'what': 'like raised', 'got': got[:60], 'pattern': p, 'text': t}, {'kind': 'like_pair', 'pattern': p, 'text': t, 'want': None})
        traces.append({'tid': tid, 'impl': 'py', 'text': cps(t), 'pat': cps(p), 'result': bool(q)})
        traces.append({'tid': -tid, 'impl': 'js', 'text': cps(t), 'pat': cps(p), 'result': bool(j)})
    path = os.path.join(d, 'traces.ndjson')
    with open(path, 'w') as f:
        for t in traces:
            f.write(json.dumps(t) + '\n')
    consts = {'Alphabet': '{}', 'MaxLen': 0, 'EmitCases': 'FALSE', 'MUT': '""'}
    tres = tlcrun.run_tlc('LikeTrace', tlcrun.write_cfg(os.path.join(d, 'trace.cfg'), constants=consts, init='TInit', next_='TNext', invariants=['Judge']), workers=1, env={'TRACE_FILE': path}, timeout=3600)
    run.add_tlc('LikeTrace:random-unicode', tres)
    if not any(c.get('consumed') == len(traces) for c in tres.cases):
        core.machinery_failure('like trace batch not consumed')
    by = {t['tid']: t for t in traces}
    for c in tres.cases:
        if 'reject' in c:
            t = by[c['reject']]
            run.violation({'impl': t['impl'], 'entry': 'select like(a1, a2)', 'what': 'trace rejected by LikeTrace', 'got': t['result'], 'want': c['like'], 'pattern': s(t['pat']), 'text': s(t['text'])},
                          {'kind': 'like_pair', 'pattern': s(t['pat']), 'text': s(t['text']), 'want': c['like']})
    run.traces += len(traces)
    matches = sum(1 for t in traces if t['result'])
    run.notes['random_pairs_matching'] = matches
    if matches < len(traces) // 50:
        core.machinery_failure('random LIKE pairs almost never match (%d of %d): vacuous sample' % (matches, len(traces)))


def replay(path):
    with open(path) as f:
        rep = json.load(f)
    c = rep['case']
    run = core.Run('C17', 'quick', 0)
    (q, rx), = _eval_py([(c['text'], c['pattern'])])
    j, = eval_js([(c['text'], c['pattern'])])
    print('pattern %r text %r: py %s regex %s js %s, want %s' % (c['pattern'], c['text'], q, rx, j, c['want']))
    for impl_, got in (('py', q), ('py-regex', rx), ('js', j)):
        if got is not None and got != c['want']:
            run.violation({'impl': impl_, 'what': 'like result', 'got': got, 'want': c['want']}, c)
    run.traces += 1
    return run.finish()
