"""C16 -- queries are isolated: consecutive and thread-interleaved runs do not interfere.

(A) TLC: RbqlIsolation -- two RbqlEngine instances over disjoint variables, all interleavings of their steps:
    each ends with its solo Ref (NonInterference); the mutant with a shared query context (the rbql-js
    architecture) must be rejected.
(B) spec -> code: every schedule TLC reaches for chosen pairs of query kinds (history variable `sched` over the
    observable API events), plus schedules sampled with `tlc -simulate` over all pairs, replayed with two real
    threads under a cooperative scheduler that releases exactly one thread per event; both results compared
    with TLC's solo results.  Histories: sequences of <= 6 queries (succeeding, parse-failing, runtime-failing)
    in one interpreter, each result compared with TLC's Ref; a sample in fresh interpreters (subprocess).
"""
import json
import os
import random
import subprocess
import sys
import threading

from .. import core, tlcrun, par, impl, engine
from .. import enginecheck as ec


class Coop(object):
    """Cooperative scheduler: a thread runs only between being granted a turn and its next checkpoint."""

    def __init__(self, patience=1):
        self.patience = patience        # multiplies the waits: a schedule that stalled is run again with long waits before it is reported
        self.cv = threading.Condition()
        self.turn = None
        self.waiting = {1: False, 2: False}
        self.done = {1: False, 2: False}
        self.free = False
        self.stalled = False
        self.trace = []

    def checkpoint(self, tid, what):
        with self.cv:
            if self.free:
                return
            self.waiting[tid] = True
            self.cv.notify_all()
            self.cv.wait_for(lambda: self.turn == tid or self.free, timeout=20)
            self.turn = None
            self.waiting[tid] = False
            self.trace.append((tid, what))
            self.cv.notify_all()

    def finish(self, tid):
        with self.cv:
            self.done[tid] = True
            self.cv.notify_all()

    def parked(self, tid):
        return self.waiting[tid] or self.done[tid]

    def wait_parked(self, tid):
        with self.cv:
            if not self.cv.wait_for(lambda: self.parked(tid), timeout=5 * self.patience):
                self.stalled = True

    def grant(self, tid):
        """Let thread `tid` perform exactly one event. Returns False if it has already finished. A thread that does not come
        back to a checkpoint of its own (e.g. because it is performing ANOTHER query's event) stalls the schedule."""
        with self.cv:
            if not self.cv.wait_for(lambda: self.parked(tid), timeout=3 * self.patience):
                self.stalled = True
                return False
            if self.done[tid]:
                return False
            self.turn = tid
            self.cv.notify_all()
            if not self.cv.wait_for(lambda: self.turn is None, timeout=3 * self.patience) or not self.cv.wait_for(lambda: self.parked(tid), timeout=3 * self.patience):
                self.stalled = True
            return True

    def release_all(self):
        with self.cv:
            self.free = True
            self.cv.notify_all()


def run_pair(mods, c1, c2, sched, patience=1):
    """Run the two cases in two threads, interleaved event by event as `sched` says."""
    rbql, eng, rcsv, cu = mods
    coop = Coop(patience)
    results = {}

    def worker(tid, case):
        events = []

        class It(eng.TableIterator):
            def get_record(self_inner):
                coop.checkpoint(tid, 'get_record')
                return eng.TableIterator.get_record(self_inner)

        class Wr(eng.RBQLOutputWriter):
            def __init__(self_inner):
                self_inner.rows = []
                self_inner.header = None

            def set_header(self_inner, header):
                coop.checkpoint(tid, 'set_header')
                self_inner.header = None if header is None else list(header)

            def write(self_inner, fields):
                coop.checkpoint(tid, 'write')
                self_inner.rows.append(fields)
                return True

            def finish(self_inner):
                coop.checkpoint(tid, 'finish')

        obs = {'err': None}
        wr = Wr()
        try:
            qtext = engine.render_query(case, engine.Plain(), 'py')
            obs['query'] = qtext
            it = It(engine.table_py(case['A']), None)
            eng.query(qtext, it, wr, [], None)
        except Exception as e:  # noqa
            obs['err'] = engine.project_error(eng, e)
        obs['rows'] = [[engine.project_value(c) for c in r] for r in wr.rows]
        obs['hdr'] = wr.header
        results[tid] = obs
        coop.finish(tid)

    t1 = threading.Thread(target=worker, args=(1, c1), daemon=True)
    t2 = threading.Thread(target=worker, args=(2, c2), daemon=True)
    t1.start()
    coop.wait_parked(1)
    t2.start()
    coop.wait_parked(2)
    drift = 0
    for t in sched:
        if not coop.grant(t):
            drift += 1
        if coop.stalled:
            break
    coop.release_all()
    t1.join(5)
    t2.join(5)
    if coop.stalled:
        results['stalled'] = True
    return results, drift, coop.trace


import multiprocessing as _mp
STALLS = _mp.Value('i', 0)        # confirmed stalls over all worker processes (inherited through fork): three are evidence enough


def _replay_schedules(items):
    mods = impl.load()
    out = []
    stalls = 0
    for tid, c1, c2, sched in items:
        if stalls >= 1 or STALLS.value >= 3:
            # a stalled schedule leaves blocked threads behind and costs a minute (it is re-run with long waits before it counts): one per chunk is evidence enough
            out.append((tid, [], 0, 0))
            continue
        results, drift, trace = run_pair(mods, c1, c2, sched)
        if results.get('stalled'):
            # a loaded machine must not be taken for a blocked thread: once more with waits of 20 s
            results, drift, trace = run_pair(mods, c1, c2, sched, patience=5)
        if results.get('stalled'):
            stalls += 1
            with STALLS.get_lock():
                STALLS.value += 1
        sigs = []
        if results.get('stalled'):
            sigs.append({'impl': 'py', 'what': 'interleaved: scheduler stalled (a thread did not return to a checkpoint of its own query: it ran into the other query\'s iterator / writer, or blocked)'})
        for k, case in ((1, c1), (2, c2)):
            obs = results.get(k)
            if obs is None:
                sigs.append({'impl': 'py', 'what': 'thread did not finish', 'thread': k})
                continue
            for sig in engine.judge(case, obs, obs.get('query', ''), check_header=False):
                sigs.append(dict(sig, thread=k, what='interleaved: ' + sig['what'], other_query=results.get(3 - k, {}).get('query', '')))
        out.append((tid, sigs, drift, len(trace)))
    return out


def iso_cfg(path, q1, q2, recs, maxa, emit, view, constraint=None):
    lines = ['INIT Init', 'NEXT Next', 'CONSTANTS', '  Queries1 <- %s' % q1, '  Queries2 <- %s' % q2, '  RecsA <- %s' % recs, '  MaxA = %d' % maxa,
             '  EmitCases = %s' % ('TRUE' if emit else 'FALSE'), 'INVARIANT NonInterference', 'INVARIANT Emit']
    if view:
        lines.append('VIEW IsoView')
    if constraint:
        lines.append('CONSTRAINT ' + constraint)
    lines.append('CHECK_DEADLOCK FALSE')
    with open(path, 'w') as f:
        f.write('\n'.join(lines) + '\n')
    return path


def replay_emitted(run, cases, label):
    items = []
    seen = set()
    for c in cases:
        key = json.dumps([c['c1']['q'], c['c1']['A'], c['c2']['q'], c['c2']['A'], c['sched']], sort_keys=True)
        if key in seen:
            continue
        seen.add(key)
        items.append((len(items) + 1, c['c1'], c['c2'], c['sched']))
    out = par.pmap(_replay_schedules, items, chunk=60)
    bytid = dict((i[0], i) for i in items)
    drift_total = 0
    for tid, sigs, drift, nev in out:
        run.traces += 1
        it = bytid[tid]
        run.count(['sched', json.dumps([it[1]['q'], it[1]['A'], it[2]['q'], it[2]['A'], it[3]], sort_keys=True)], nontrivial=(len(it[3]) >= 6 and 1 in it[3] and 2 in it[3]))
        drift_total += drift
        for sig in sigs:
            run.violation(sig, {'kind': 'schedule', 'c1': it[1], 'c2': it[2], 'sched': it[3]})
    run.notes.setdefault('schedules_replayed', {})[label] = len(items)
    run.notes['trace_drift'] = run.notes.get('trace_drift', 0) + drift_total
    if items:
        run.sample({'schedule': items[len(items) // 2][3], 'q1': engine.render_query(items[len(items) // 2][1], engine.Plain(), 'py'), 'q2': engine.render_query(items[len(items) // 2][2], engine.Plain(), 'py')})
    return len(items)


def _solo(case):
    """One query in a process that has never run a query (forked from a parent that only imported the code): 'alone'."""
    mods = impl.load()
    q = engine.render_query(case, engine.Plain(), 'py')
    obs = engine.run_case_py(mods, case, q)
    return (ec.case_key(case), {'rows': obs['rows'], 'hdr': obs['hdr'], 'err': None if obs['err'] is None else [obs['err']['cls'], obs['err']['nr'], obs['err']['fld']]})


SOLO = {}


def _history_chunk(histories):
    mods = impl.load()
    out = []
    for hid, cases in histories:
        sigs = []
        for pos, case in enumerate(cases):
            qtext = engine.render_query(case, engine.Plain(), 'py')
            obs = engine.run_case_py(mods, case, qtext)
            hist = [engine.render_query(c, engine.Plain(), 'py') for c in cases[:pos]]
            for sig in engine.judge(case, obs, qtext):
                sigs.append(dict(sig, what='after history: ' + sig['what'], position=pos, history=hist))
            solo = SOLO.get(ec.case_key(case))
            got = {'rows': obs['rows'], 'hdr': obs['hdr'], 'err': None if obs['err'] is None else [obs['err']['cls'], obs['err']['nr'], obs['err']['fld']]}
            if solo is not None and got != solo:
                # exact comparison, value types included (an int that becomes a float is a different result)
                sigs.append({'impl': 'py', 'what': 'after history: result differs from running alone', 'query': qtext, 'got': got, 'want': solo, 'position': pos, 'history': hist})
        out.append((hid, sigs))
    return out


def _swap(e):
    """Exchange the fields a1 and a2 in an expression / item / assignment list."""
    if isinstance(e, list):
        if len(e) == 3 and e[0] == 'fld' and e[1] == 'a' and e[2] in (1, 2):
            return ['fld', 'a', 3 - e[2]]
        return [_swap(x) for x in e]
    return e


def swap_query(q):
    q2 = dict(q)
    for k in ('items', 'where', 'order', 'group'):
        q2[k] = _swap(q[k])
    q2['assign'] = [[3 - a[0] if a[0] in (1, 2) else a[0], _swap(a[1])] for a in q['assign']]
    return q2


def _layout_chunk(pairs):
    """The SAME query text over two tables whose headers put the names in different positions (x1,x2 then x2,x1): each run must give
    what TLC computed for it (the second is TLC's case for the field-exchanged query)."""
    mods = impl.load()
    out = []
    for pid, c1, c2, style in pairs:
        sigs = []
        ren = {c2['hdrA'][0]: c2['hdrA'][1], c2['hdrA'][1]: c2['hdrA'][0]}
        exp2 = dict(c2['expect'], hdr=[ren.get(h, h) for h in c2['expect']['hdr']])
        c2v = dict(c2, hdrA=[c2['hdrA'][1], c2['hdrA'][0]], expect=exp2)
        t1 = engine.render_query(c1, engine.Named(style), 'py')
        t2 = engine.render_query(c2v, engine.Named(style), 'py')
        if t1 != t2:
            out.append((pid, [{'machinery': 'texts differ', 't1': t1, 't2': t2}]))
            continue
        for pos, (case, label) in enumerate(((c1, 'first layout'), (c2v, 'second layout'), (c1, 'first layout again'))):
            obs = engine.run_case_py(mods, case, t1)
            for sig in engine.judge(case, obs, t1):
                sigs.append(dict(sig, what='same text, other column layout (%s): %s' % (label, sig['what']), position=pos))
        out.append((pid, sigs))
    return out


def _shared_table_chunk(pairs):
    """Two queries one after the other over the SAME list object (an UPDATE, possibly failing half way, then a SELECT): the second must give
    what it gives alone - the first query must not have left anything behind in the caller's rows."""
    mods = impl.load()
    out = []
    for pid, u, sel in pairs:
        A = engine.table_py(u['A'])
        q1 = engine.render_query(u, engine.Plain(), 'py')
        engine.run_case_py(mods, u, q1, shared_A=A)
        q2 = engine.render_query(sel, engine.Plain(), 'py')
        obs = engine.run_case_py(mods, sel, q2, shared_A=A)
        sigs = [dict(sig, what='after an UPDATE over the same table object: ' + sig['what'], first_query=q1) for sig in engine.judge(sel, obs, q2)]
        out.append((pid, sigs))
    return out


# ---- user init code: what one query's init code defines must be invisible to every other query (exec namespace per run)
INIT_QUERIES = {
    'D1': ('def helper16(x):\n    return x + "1"', 'select helper16(a1), NR'),
    'D2': ('def helper16(x):\n    return x + "2"', 'select helper16(a1), NR'),
    'N': ('', 'select helper16(a1), NR'),                      # alone: a runtime error at record 1 (the name is not defined)
    'V': ('scale16 = 10', 'select int(a2) * scale16'),
    'NV': ('', 'select int(a2) * scale16'),                    # alone: an error
    'I': ('import math as mm16', 'select mm16.floor(float(a2) / 2)'),
    'NI': ('', 'select mm16.floor(float(a2) / 2)'),            # alone: an error
    'U': ('def helper16(x):\n    return x + "u"', 'update set a1 = helper16(a1)'),
    'P': ('', 'select a1, a2'),
}
INIT_TABLE = [['ab', '4'], ['cd', '6'], ['ef', '9']]


def _init_run(mods, name, iterator=None):
    rbql, eng = mods[0], mods[1]
    init, q = INIT_QUERIES[name]
    out, warnings = [], []
    try:
        if iterator is None:
            rbql.query_table(q, [list(r) for r in INIT_TABLE], out, warnings, user_init_code=init)
        else:
            eng.query(q, iterator, eng.TableWriter(out), warnings, None, user_init_code=init)
        return ['ok', out]
    except Exception as e:  # noqa
        return ['err', type(e).__name__, out]


def _init_solo(name):
    return name, _init_run(impl.load(), name)


def _init_history_chunk(items):
    mods = impl.load()
    eng = mods[1]
    outp = []
    for hid, kind, names in items:
        sigs = []
        if kind == 'seq':
            for pos, name in enumerate(names):
                got = _init_run(mods, name)
                if got != INIT_SOLO[name]:
                    sigs.append({'impl': 'py', 'what': 'after history: result differs from running alone (user init code leaks)', 'query': INIT_QUERIES[name][1], 'got': got, 'want': INIT_SOLO[name], 'position': pos, 'history': list(names[:pos])})
        else:
            # names = (outer, inner, k): the inner query runs to completion in ANOTHER thread between the k-th and the (k+1)-th get_record of the outer one
            outer, inner, k = names
            box = {}

            class Interleaving(eng.TableIterator):
                def __init__(self):
                    eng.TableIterator.__init__(self, [list(r) for r in INIT_TABLE], None)
                    self.calls = 0

                def get_record(self):
                    self.calls += 1
                    if self.calls == k + 1:
                        t = threading.Thread(target=lambda: box.__setitem__('inner', _init_run(mods, inner)))
                        t.start()
                        t.join()
                    return eng.TableIterator.get_record(self)

            got = _init_run(mods, outer, Interleaving())
            if got != INIT_SOLO[outer]:
                sigs.append({'impl': 'py', 'what': 'interleaved with a query in another thread: result differs from running alone (user init code leaks)', 'query': INIT_QUERIES[outer][1], 'got': got, 'want': INIT_SOLO[outer], 'other': inner, 'at_record': k})
            if 'inner' in box and box['inner'] != INIT_SOLO[inner]:       # (an outer query that fails earlier never reaches the k-th read)
                sigs.append({'impl': 'py', 'what': 'interleaved with a query in another thread: result differs from running alone (user init code leaks)', 'query': INIT_QUERIES[inner][1], 'got': box.get('inner'), 'want': INIT_SOLO[inner], 'other': outer, 'at_record': k, 'role': 'inner'})
        outp.append((hid, sigs))
    return outp


INIT_SOLO = {}


def init_code_histories(run):
    import itertools
    import multiprocessing
    names = sorted(INIT_QUERIES)
    with multiprocessing.get_context('fork').Pool(len(names), maxtasksperchild=1) as pool:
        for name, solo in pool.imap_unordered(_init_solo, names, chunksize=1):
            INIT_SOLO[name] = solo
    run.traces += len(names)
    for name in ('N', 'NV', 'NI'):
        if INIT_SOLO[name][0] != 'err':
            core.machinery_failure('init-code histories: %s does not fail alone: %r' % (name, INIT_SOLO[name]))
    for name in ('D1', 'D2', 'V', 'I', 'U', 'P'):
        if INIT_SOLO[name][0] != 'ok' or len(INIT_SOLO[name][1]) != 3:
            core.machinery_failure('init-code histories: %s does not succeed alone: %r' % (name, INIT_SOLO[name]))
    if INIT_SOLO['D1'] == INIT_SOLO['D2']:
        core.machinery_failure('init-code histories: D1 and D2 are indistinguishable')
    items = []
    for n in (2, 3):
        for h in itertools.product(names, repeat=n):
            if any(x in ('N', 'NV', 'NI', 'D1', 'D2') for x in h[1:]) or n == 2:
                items.append((len(items), 'seq', list(h)))
    for outer in names:
        for inner in names:
            for k in (0, 1, 2, 3):
                items.append((len(items), 'par', [outer, inner, k]))
    for (hid, kind, h), (_, sigs) in zip(items, par.pmap(_init_history_chunk, items, chunk=40)):
        run.traces += len(h) if kind == 'seq' else 2
        run.count(['init-history', kind, h], nontrivial=True)
        for sig in sigs:
            run.violation(sig, {'kind': 'init_history', 'mode': kind, 'names': h})
    run.notes['init_code_histories'] = len(items)


FRESH = r'''
import sys, json
sys.path.insert(0, %r)
from harness import impl, engine
mods = impl.load()
case = json.load(sys.stdin)
q = engine.render_query(case, engine.Plain(), 'py')
obs = engine.run_case_py(mods, case, q)
print(json.dumps({'sigs': engine.judge(case, obs, q), 'query': q}, default=str))
'''


def check(run):
    quick = run.tier == 'quick'
    run.rule = ('(A) all pairs of 9 query kinds (plain, top, sorted, distinct count, aggregate, unnest, update, runtime-failing, parse-failing) over tables of <= %d records: every interleaving explored by TLC; '
                '(B) every schedule of chosen pairs (exhaustive: one terminal state per schedule of API events) and schedules sampled by tlc -simulate over all pairs, replayed with two real threads under a cooperative scheduler; '
                'histories of <= 6 queries in one interpreter, the same query text (columns by name) over two column layouts in one interpreter, single queries in fresh interpreters, and user-init-code histories (what the init code of one query defines is invisible to the next query and to a query running in another thread between two reads); non-trivial = schedule of >= 6 events in which both threads take steps' % (2 if quick else 3))
    run.assumptions = ['interleaving points are the iterator / writer calls (what the statement names)', 'Python port only: rbql-js keeps one module-global context (documented limitation)']
    d = tlcrun.new_scratch('c16')
    # (A) exhaustive interleavings without the history variable in the fingerprint
    res = tlcrun.run_tlc('MC_Isolation', iso_cfg(os.path.join(d, 'all.cfg'), 'Kinds', 'Kinds', 'R_iso2' if quick else 'R_iso', 2 if quick else 3, False, True), timeout=7200, heap='24g')
    run.add_tlc('MC_Isolation:all-pairs-view', res)
    mres = tlcrun.run_tlc('MC_IsolationShared', iso_cfg(os.path.join(d, 'shared.cfg'), 'Kinds', 'Kinds', 'R_iso2', 2, False, True), timeout=3600, heap='24g', expect_violation=True)
    if mres.violation is None:
        core.machinery_failure('isolation mutant (shared query context) not rejected by TLC')
    run.notes.setdefault('spec_mutants_rejected', []).append('RbqlIsolationShared/shared_ctx -> ' + mres.violation)
    # (B) exhaustive schedules of chosen pairs (tables of exactly 2 records)
    pairs = [('S_unnest', 'S_agg'), ('S_agg', 'S_fail'), ('S_count', 'S_update')] if quick else \
            [('S_unnest', 'S_agg'), ('S_agg', 'S_fail'), ('S_count', 'S_update'), ('S_sorted', 'S_top'), ('S_unnest', 'S_unnest'), ('S_agg', 'S_agg'), ('S_parsefail', 'S_unnest')]
    for k, (a, b) in enumerate(pairs):
        r = tlcrun.run_tlc('MC_Isolation', iso_cfg(os.path.join(d, 'pair%d.cfg' % k), a, b, 'R_isoFixed', 2, True, False, constraint='FixedTables'), timeout=7200, heap='24g')
        run.add_tlc('MC_Isolation:schedules:%s|%s' % (a, b), r)
        replay_emitted(run, r.cases, '%s|%s' % (a, b))
    # sampled schedules over all pairs
    r = tlcrun.run_tlc('MC_Isolation', iso_cfg(os.path.join(d, 'sim.cfg'), 'Kinds', 'Kinds', 'R_iso2', 2, True, False), simulate=(1500 if quick else 20000), depth=80, seed=run.seed, workers=8, timeout=7200)
    run.add_tlc('MC_Isolation:simulate', r)
    replay_emitted(run, r.cases, 'simulate')
    # histories in one interpreter: solo cases (with expectations) from the engine families
    hc = []
    for fam, recs, maxa in (('Q_C14', 'R_poison', 2), ('Q_C15', 'R_2x2', 2), ('Q_C14text', 'R_poison', 1), ('Q_C03med', 'R_num', 2)):
        rr = tlcrun.run_tlc('MC_Engine', ec.engine_cfg(os.path.join(d, fam + '.cfg'), fam, recs, 'R_none', maxa, 0, (False,), (0,)), timeout=3600)
        run.add_tlc('MC_Engine:history-pool:' + fam, rr)
        hc.extend(rr.cases)
    # every pool case once 'alone': one freshly forked process per query (maxtasksperchild=1)
    import multiprocessing
    uniq = list({ec.case_key(c): c for c in hc}.values())
    with multiprocessing.get_context('fork').Pool(par.NPROC, maxtasksperchild=1) as pool:
        for key, solo in pool.imap_unordered(_solo, uniq, chunksize=1):
            SOLO[key] = solo
    run.traces += len(uniq)
    run.notes['solo_runs_in_fresh_processes'] = len(uniq)
    rnd = random.Random(run.seed + 16)
    failing = [c for c in hc if c['expect']['err']]
    okc = [c for c in hc if not c['expect']['err']]
    histories = []
    for hid in range(400 if quick else 5000):
        n = rnd.randint(2, 6)
        h = [rnd.choice(failing if rnd.random() < 0.45 else okc) for _ in range(n)]
        histories.append((hid, h))
    out = par.pmap(_history_chunk, histories, chunk=25)
    for (hid, h), (_, sigs) in zip(histories, out):
        run.traces += len(h)
        run.count(['history', [ec.case_key(c) for c in h]], nontrivial=any(c['expect']['err'] for c in h[:-1]))
        for sig in sigs:
            run.violation(sig, {'kind': 'history', 'cases': h})
    # an UPDATE, then a SELECT, over the same table object
    byA = {}
    for c in hc:
        byA.setdefault(json.dumps(c['A']), []).append(c)
    spairs = []
    for group in byA.values():
        ups = [c for c in group if c['q']['kind'] == 'update' and c['breakAt'] == 0][:3]
        sels = [c for c in group if c['q']['kind'] == 'select' and c['breakAt'] == 0 and len(c['A']) >= 1][:4]
        for u in ups:
            for sl in sels:
                spairs.append((len(spairs), u, sl))
    if not spairs:
        core.machinery_failure('no UPDATE / SELECT pair over a common table in the history pool')
    for (pid, u, sl), (_, sigs) in zip(spairs, par.pmap(_shared_table_chunk, spairs, chunk=60)):
        run.traces += 2
        run.count(['shared-table', ec.case_key(u), ec.case_key(sl)], nontrivial=True, n=2)
        for sig in sigs:
            run.violation(sig, {'kind': 'shared_table', 'u': u, 'sel': sl})
    run.notes['shared_table_pairs'] = len(spairs)
    # the same query text over tables with different column layouts, one after another in one interpreter
    rr = tlcrun.run_tlc('MC_Engine', ec.engine_cfg(os.path.join(d, 'named.cfg'), 'Q_C16named', 'R_2x2', 'R_none', 2, 0, (True,), (0,)), timeout=3600)
    run.add_tlc('MC_Engine:same-text-other-layout', rr)
    bykey = {json.dumps([c['q'], c['A']], sort_keys=True): c for c in rr.cases}
    lpairs = []
    for c1 in rr.cases:
        if len(c1['A']) < 1:
            continue
        c2 = bykey.get(json.dumps([swap_query(c1['q']), c1['A']], sort_keys=True))
        if c2 is None:
            core.machinery_failure('Q_C16named is not closed under exchanging the fields')
        lpairs.append((len(lpairs), c1, c2, 2 + len(lpairs) % 3))
    for (pid, c1, c2, style), (_, sigs) in zip(lpairs, par.pmap(_layout_chunk, lpairs, chunk=40)):
        run.traces += 3
        run.count(['layout', ec.case_key(c1)], nontrivial=True, n=3)
        for sig in sigs:
            if 'machinery' in sig:
                core.machinery_failure('layout pair: ' + json.dumps(sig))
            run.violation(sig, {'kind': 'layout', 'c1': c1, 'c2': c2, 'style': style})
    init_code_histories(run)
    # fresh interpreters
    sample = [rnd.choice(hc) for _ in range(12 if quick else 60)]
    for case in sample:
        p = subprocess.run(['/venv/bin/python', '-W', 'ignore', '-c', FRESH % core.VERIF], input=json.dumps(case).encode(), stdout=subprocess.PIPE, stderr=subprocess.PIPE, env=dict(os.environ, PYTHONDONTWRITEBYTECODE='1'), timeout=120)
        run.traces += 1
        if p.returncode != 0:
            core.machinery_failure('fresh-interpreter run failed: ' + p.stderr.decode()[-500:])
        r = json.loads(p.stdout.decode().strip().split('\n')[-1])
        for sig in r['sigs']:
            run.violation(dict(sig, what='fresh interpreter: ' + sig['what']), {'kind': 'engine_case', 'case': case, 'opts': {'spelling': False}})
    run.exhaustive = True


def replay(path):
    with open(path) as f:
        rep = json.load(f)
    c = rep['case']
    run = core.Run('C16', 'quick', 0)
    if c['kind'] == 'schedule':
        for tid, sigs, drift, nev in _replay_schedules([(1, c['c1'], c['c2'], c['sched'])]):
            run.traces += 1
            for sig in sigs:
                run.violation(sig, c)
    elif c['kind'] == 'shared_table':
        for pid, sigs in _shared_table_chunk([(1, c['u'], c['sel'])]):
            run.traces += 2
            for sig in sigs:
                run.violation(sig, c)
    elif c['kind'] == 'layout':
        for pid, sigs in _layout_chunk([(1, c['c1'], c['c2'], c['style'])]):
            run.traces += 3
            for sig in sigs:
                run.violation(sig, c)
    elif c['kind'] == 'history':
        for hid, sigs in _history_chunk([(1, c['cases'])]):
            for sig in sigs:
                run.violation(sig, c)
    elif c['kind'] == 'init_history':
        import multiprocessing
        with multiprocessing.get_context('fork').Pool(4, maxtasksperchild=1) as pool:
            for name, solo in pool.imap_unordered(_init_solo, sorted(INIT_QUERIES), chunksize=1):
                INIT_SOLO[name] = solo
        for hid, sigs in _init_history_chunk([(1, c['mode'], c['names'])]):
            run.traces += 1
            for sig in sigs:
                run.violation(sig, c)
    else:
        return ec.replay_file('C16', path)
    return run.finish()
