"""C11 -- field splitting implements the documented quoting dialect exactly.

(A) TLC: CsvScanner (scanner automaton == declarative dialect) on every line within the bound.
(B) spec -> code: every emitted case replayed into csv_utils.smart_split (all policies, normal and
    quote-preserving) and into CSVRecordIterator over a one-line stream (public path), Python and JS.
(C) code -> spec: random long lines over full Unicode, recorded from the real splitter, judged by
    TLC (CsvDialectTrace).
"""
import io
import json
import os
import random

from .. import core, tlcrun, par, node, messages
from ..text import s, cps, ss, cpss
from .. import impl

POLICIES = ['quoted', 'quoted_rfc', 'simple', 'whitespace', 'monocolumn']

# (name, alphabet, dlmA, dlmB)
CONFIGS = [
    ('comma', [34, 44, 32, 97], 44, 0),
    ('space', [34, 32, 97], 32, 0),
    ('colon2', [34, 58, 32, 97], 58, 58),
    ('comma-with-tab', [34, 44, 9, 97], 44, 0),     # TAB is an ordinary character around quoted fields (only the space is white space here)
    ('tab', [34, 9, 32, 97], 9, 0),
    ('space-with-tab', [34, 32, 9, 97], 32, 0),     # whitespace policy: only the space separates, a TAB is field content
]


def scanner_cfg(path, alphabet, a, b, maxlen, emit=True, mut=''):
    consts = {'Alphabet': '{' + ', '.join(map(str, alphabet)) + '}', 'DlmA': a, 'DlmB': b, 'MaxLen': maxlen,
              'EmitCases': 'TRUE' if emit else 'FALSE', 'MUT': '"%s"' % mut}
    return tlcrun.write_cfg(path, constants=consts,
                            invariants=['ScannerIsDialect', 'PreserveRejoins', 'QuoteRoundTrip', 'TypeOK', 'Emit'])


def py_split_all(csv_utils, line, dlm):
    out = {}
    for pol in ['quoted', 'simple', 'whitespace', 'monocolumn']:
        for pres in (False, True):
            key = pol + ('_p' if pres else '')
            try:
                f, w = csv_utils.smart_split(line, dlm, pol, pres)
                out[key] = {'fields': f, 'warn': bool(w)}
            except Exception as e:  # noqa
                out[key] = {'error': {'cls': type(e).__name__, 'msg': str(e)}}
    return out


def py_iter(rbql_csv, rbql_engine, line, dlm, policy):
    try:
        it = rbql_csv.CSVRecordIterator(io.StringIO(line), None, dlm, policy)
        recs = it.get_all_records()
        w = it.get_warnings()
        return {'records': recs, 'qwarn': messages.has_kind(w, 'quoting')}
    except rbql_engine.RbqlIOHandlingError as e:
        return {'ioerror': str(e)}


def judge_case(case, got, implname, sigs):
    """Compare one emitted case with what an implementation's smart_split returned. Appends signatures of mismatches."""
    line = s(case['line'])
    dlm = s(case['dlm'])
    exp = {
        'quoted': (ss(case['q']['fields']), case['q']['warn']),
        'quoted_p': (ss(case['q']['raw']), case['q']['warn']),
        'simple': (ss(case['simple']), False),
        'simple_p': (ss(case['simple']), False),
        'whitespace': (ss(case['ws']), False),
        'whitespace_p': (ss(case['wsraw']), False),
        'monocolumn': ([line], False),
        'monocolumn_p': ([line], False),
    }
    for key, (ef, ew) in exp.items():
        g = got.get(key)
        if g is None:
            continue
        if 'error' in g:
            sigs.append({'impl': implname, 'entry': 'smart_split', 'policy': key, 'what': 'exception', 'dlmlen': len(dlm), 'detail': g['error']})
            continue
        if g['fields'] != ef:
            sigs.append({'impl': implname, 'entry': 'smart_split', 'policy': key, 'what': 'fields', 'dlmlen': len(dlm), 'got': g['fields'], 'want': ef})
        elif bool(g['warn']) != bool(ew):
            sigs.append({'impl': implname, 'entry': 'smart_split', 'policy': key, 'what': 'warning', 'dlmlen': len(dlm), 'got': g['warn'], 'want': ew})
        if key == 'quoted_p' and 'fields' in g and dlm.join(g['fields']) != line:
            sigs.append({'impl': implname, 'entry': 'smart_split', 'policy': key, 'what': 'rejoin', 'dlmlen': len(dlm), 'got': dlm.join(g['fields'])})


def _replay_py(cases):
    rbql, rbql_engine, rbql_csv, csv_utils = impl.load()
    out = []
    for case in cases:
        sigs = []
        line = s(case['line'])
        dlm = s(case['dlm'])
        got = py_split_all(csv_utils, line, dlm)
        judge_case(case, got, 'py', sigs)
        # public path: the reader over a one-line stream
        qf, qw = ss(case['q']['fields']), case['q']['warn']
        for pol in ('quoted', 'quoted_rfc', 'simple', 'whitespace', 'monocolumn'):
            if pol == 'whitespace' and dlm != ' ':
                continue
            r = py_iter(rbql_csv, rbql_engine, line, dlm, pol)
            if pol in ('quoted', 'quoted_rfc'):
                want_recs = [qf] if line != '' else []
                if pol == 'quoted_rfc' and qw and line != '':
                    if 'ioerror' not in r:
                        sigs.append({'impl': 'py', 'entry': 'CSVRecordIterator', 'policy': pol, 'what': 'no error on malformed quoting', 'dlmlen': len(dlm)})
                    continue
                if 'ioerror' in r:
                    sigs.append({'impl': 'py', 'entry': 'CSVRecordIterator', 'policy': pol, 'what': 'unexpected IO error', 'dlmlen': len(dlm), 'got': r['ioerror']})
                    continue
                if r['records'] != want_recs:
                    sigs.append({'impl': 'py', 'entry': 'CSVRecordIterator', 'policy': pol, 'what': 'fields', 'dlmlen': len(dlm), 'got': r['records'], 'want': want_recs})
                elif r['qwarn'] != (qw and line != ''):
                    sigs.append({'impl': 'py', 'entry': 'CSVRecordIterator', 'policy': pol, 'what': 'warning', 'dlmlen': len(dlm), 'got': r['qwarn'], 'want': qw})
            else:
                wf = {'simple': ss(case['simple']), 'whitespace': ss(case['ws']), 'monocolumn': [line]}[pol]
                want_recs = [wf] if line != '' else []
                if 'ioerror' in r or r['records'] != want_recs or r['qwarn']:
                    sigs.append({'impl': 'py', 'entry': 'CSVRecordIterator', 'policy': pol, 'what': 'fields', 'dlmlen': len(dlm), 'got': r, 'want': want_recs})
        out.append(sigs)
    return out


def replay_cases(run, cases, with_js=True):
    res = par.pmap(_replay_py, cases, chunk=3000)
    nviol = 0
    for case, sigs in zip(cases, res):
        line = case['line']
        run.count(['py', case['dlm'], line], nontrivial=(34 in line or any(c in line for c in case['dlm'])))
        run.traces += 1
        for sig in sigs:
            run.violation(sig, {'kind': 'dialect_case', 'case': case})
            nviol += 1
    if with_js:
        reqs = [{'op': 'split', 'line': s(c['line']), 'dlm': s(c['dlm']), 'policies': ['quoted', 'simple', 'whitespace', 'monocolumn']} for c in cases]
        resp = node.run_batch(reqs, nproc=par.NPROC)
        for case, got in zip(cases, resp):
            sigs = []
            judge_case(case, got, 'js', sigs)
            run.traces += 1
            run.count(['js', case['dlm'], case['line']], nontrivial=(34 in case['line']))
            for sig in sigs:
                run.violation(sig, {'kind': 'dialect_case', 'case': case})
    return nviol


OTHERS = ['a', 'b', 'z', '0', '9', '.', '*', '\\', '[', '(', '^', '$', '+', '?', '|', '\t', "'", '#', 'é', 'ß', 'Ж', '中', '☃', '\U0001F600', '\U00010348', ' ', '　', '﻿']


def random_line(rnd, dlm, maxlen):
    n = rnd.randint(0, maxlen)
    out = []
    dchars = list(dlm)
    for _ in range(n):
        r = rnd.random()
        if r < 0.22:
            out.append('"')
        elif r < 0.40:
            out.append(rnd.choice(dchars))
        elif r < 0.52:
            out.append(dlm)
        elif r < 0.64:
            out.append(' ')
        else:
            out.append(rnd.choice(OTHERS))
    return ''.join(out)


DLMS_RANDOM = [',', ';', '\t', '|', ' ', '::', ':;', '¦', 'ab']


def _record_py(jobs):
    rbql, rbql_engine, rbql_csv, csv_utils = impl.load()
    out = []
    for tid, line, dlm, pol in jobs:
        f, w = csv_utils.smart_split(line, dlm, pol, False)
        p, _ = csv_utils.smart_split(line, dlm, pol, True)
        out.append({'tid': tid, 'impl': 'py', 'line': cps(line), 'dlm': cps(dlm), 'policy': pol,
                    'fields': cpss(f), 'warn': bool(w), 'preserved': cpss(p)})
    return out


def validate_traces(run, traces, label):
    """Write recorded executions to ndjson, let TLC judge them with the dialect operators."""
    d = tlcrun.new_scratch('c11trace')
    path = os.path.join(d, 'traces.ndjson')
    with open(path, 'w') as f:
        for t in traces:
            f.write(json.dumps(t) + '\n')
    cfg = tlcrun.write_cfg(os.path.join(d, 'trace.cfg'), invariants=['Judge'])
    res = tlcrun.run_tlc('CsvDialectTrace', cfg, workers=1, env={'TRACE_FILE': path})
    run.add_tlc('CsvDialectTrace:' + label, res)
    consumed = [c for c in res.cases if 'consumed' in c]
    if not consumed or consumed[0]['consumed'] != len(traces) or res.distinct != len(traces) + 1:
        core.machinery_failure('trace batch not consumed to its end (%s of %d, %d states)' % (consumed, len(traces), res.distinct))
    by_tid = {t['tid']: t for t in traces}
    for c in res.cases:
        if 'reject' in c:
            t = by_tid[c['reject']]
            run.violation({'impl': t['impl'], 'entry': 'smart_split(trace)', 'policy': t['policy'], 'what': 'rejected by CsvDialectTrace',
                           'dlmlen': len(t['dlm']), 'line': s(t['line']), 'got': ss(t['fields']), 'want': ss(c['fields']), 'want_warn': c['warn'], 'got_warn': t['warn']},
                          {'kind': 'dialect_trace', 'trace': t})
    run.traces += len(traces)
    for t in traces:
        run.count(['trace', t['impl'], t['dlm'], t['policy'], t['line']], nontrivial=(34 in t['line']))
    return res


def self_test_mutant(run):
    """R5: the invariants can fail -- the delim_len_1 mutant of the scanner must be rejected by TLC."""
    d = tlcrun.new_scratch('c11mut')
    cfg = scanner_cfg(os.path.join(d, 'mut.cfg'), [34, 58, 97], 58, 58, 5, emit=False, mut='delim_len_1')
    res = tlcrun.run_tlc('CsvScanner', cfg, expect_violation=True)
    if res.violation is None:
        core.machinery_failure('spec mutant delim_len_1 was not rejected by TLC (vacuous invariants?)')
    run.notes.setdefault('spec_mutants_rejected', []).append('CsvScanner/delim_len_1 -> ' + res.violation)


def check(run):
    quick = run.tier == 'quick'
    maxlen = {'comma': 7 if quick else 9, 'space': 8 if quick else 10, 'colon2': 6 if quick else 8, 'comma-with-tab': 6 if quick else 8, 'tab': 6 if quick else 8, 'space-with-tab': 6 if quick else 8}
    run.rule = ('cases = every line up to the bound over {quote, delimiter chars, space, other} per delimiter, emitted by TLC from CsvScanner and replayed into '
                'smart_split (4 policies x normal/preserve) and CSVRecordIterator (5 policies) of rbql-py and smart_split of rbql-js; plus random Unicode lines '
                'recorded from the real splitters and judged by TLC; non-trivial = line contains a quote or a delimiter character; distinct by (impl, delimiter, line[, policy])')
    run.assumptions = ['multi-character delimiters contain no space', 'lines contain no line breaks (C12 covers line assembly)']
    d = tlcrun.new_scratch('c11')
    self_test_mutant(run)
    for name, alphabet, a, b in CONFIGS:
        cfg = scanner_cfg(os.path.join(d, name + '.cfg'), alphabet, a, b, maxlen[name])
        res = tlcrun.run_tlc('CsvScanner', cfg, coverage=not quick)
        run.add_tlc('CsvScanner:%s:len<=%d' % (name, maxlen[name]), res)
        nlines = sum(len(alphabet) ** k for k in range(maxlen[name] + 1))
        if len(res.cases) != nlines:
            core.machinery_failure('expected %d emitted cases for %s, got %d' % (nlines, name, len(res.cases)))
        run.sample({'config': name, 'case': res.cases[len(res.cases) // 2]})
        replay_cases(run, res.cases)
    run.exhaustive = True
    # (C) random long Unicode lines -> recorded -> judged by TLC
    rnd = random.Random(run.seed)
    n = 4000 if quick else 60000
    jobs = []
    for tid in range(n):
        dlm = rnd.choice(DLMS_RANDOM)
        pol = rnd.choice(POLICIES)
        if pol == 'whitespace':
            dlm = ' '
        line = random_line(rnd, dlm, 40)
        jobs.append((tid, line, dlm, pol))
    traces = par.pmap(_record_py, jobs, chunk=4000)
    # the same executions through rbql-js
    reqs = [{'op': 'split', 'line': line, 'dlm': dlm, 'policies': [pol if pol != 'quoted_rfc' else 'quoted']} for (_, line, dlm, pol) in jobs]
    resp = node.run_batch(reqs, nproc=par.NPROC)
    for (tid, line, dlm, pol), r in zip(jobs, resp):
        p = pol if pol != 'quoted_rfc' else 'quoted'
        if 'error' in r[p] or 'error' in r[p + '_p']:
            run.violation({'impl': 'js', 'entry': 'smart_split(trace)', 'policy': pol, 'what': 'exception', 'dlmlen': len(dlm)}, {'kind': 'dialect_line', 'line': line, 'dlm': dlm, 'policy': pol})
            continue
        traces.append({'tid': n + tid, 'impl': 'js', 'line': cps(line), 'dlm': cps(dlm), 'policy': pol,
                       'fields': cpss(r[p]['fields']), 'warn': bool(r[p]['warn']), 'preserved': cpss(r[p + '_p']['fields'])})
    run.sample({'trace': {k: (s(v) if k in ('line', 'dlm') else v) for k, v in traces[1].items() if k in ('line', 'dlm', 'policy', 'impl')}})
    validate_traces(run, traces, 'random-unicode')
    # corrupted-trace control (R5 iii): a recorded execution with one field changed must be rejected
    bad = dict(traces[0])
    bad['fields'] = bad['fields'] + [[120]]
    bad['tid'] = 0
    ctl = core.Run(run.prop, run.tier, run.seed)
    ctl.findings = []
    validate_traces(ctl, [bad], 'control')
    if not ctl.violations:
        core.machinery_failure('corrupted trace was accepted by CsvDialectTrace')
    run.notes['corrupted_trace_rejected'] = True


def replay(path):
    with open(path) as f:
        rep = json.load(f)
    run = core.Run('C11', 'quick', 0)
    c = rep['case']
    if c['kind'] == 'dialect_case':
        replay_cases(run, [c['case']])
    elif c['kind'] == 'dialect_trace':
        t = c['trace']
        if t['impl'] == 'py':
            t2 = _record_py([(t['tid'], s(t['line']), s(t['dlm']), t['policy'])])
        else:
            t2 = [t]
        validate_traces(run, t2, 'replay')
    return run.finish()
