"""C12 -- CSV reading depends only on content, never on how the stream is chunked (Python reader).

(A) TLC: CsvReader -- short reads nondeterministic; on every path the machine ends with RefRead(text).
(B) spec -> code: TLC prints RefRead once per (text, policy, comment prefix); the harness delivers the
    text to the real CSVRecordIterator under ALL 2^(n-1) partitions and all chunk sizes 1..n+1
    (text level), and byte-level partitions of the UTF-8 / latin-1 encoding under io.TextIOWrapper.
(C) code -> spec: recorded read(n)->piece event sequences of bigger random texts are validated step by
    step by TLC (CsvReaderTrace).
"""
import io
import json
import os
import random
import re

from .. import messages, core, tlcrun, par, impl
from ..text import s, cps, ss, cpss


class ScriptedStream(object):
    """Text stream whose read(n) returns prescribed pieces (a read never crosses a piece boundary)."""

    def __init__(self, pieces, log=None):
        self.pieces = [p for p in pieces if p]
        self.i = 0
        self.off = 0
        self.log = log

    def read(self, n=-1):
        if self.i >= len(self.pieces):
            out = ''
        else:
            p = self.pieces[self.i]
            if n is None or n < 0:
                n = len(p)
            out = p[self.off:self.off + n]
            self.off += len(out)
            if self.off >= len(p):
                self.i += 1
                self.off = 0
        if self.log is not None:
            self.log.append([n, cps(out)])
        return out


class ScriptedRaw(io.RawIOBase):
    """Raw byte stream delivering prescribed pieces (one piece, or part of it, per readinto)."""

    def __init__(self, pieces):
        io.RawIOBase.__init__(self)
        self.pieces = [p for p in pieces if p]
        self.i = 0
        self.off = 0

    def readable(self):
        return True

    def readinto(self, b):
        if self.i >= len(self.pieces):
            return 0
        p = self.pieces[self.i]
        n = min(len(b), len(p) - self.off)
        b[:n] = p[self.off:self.off + n]
        self.off += n
        if self.off >= len(p):
            self.i += 1
            self.off = 0
        return n


def partitions(n):
    """All compositions of n as lists of piece lengths (2^(n-1) of them; [[]] for n = 0)."""
    if n == 0:
        yield []
        return
    for mask in range(1 << (n - 1)):
        out = []
        cur = 1
        for k in range(n - 1):
            if mask >> k & 1:
                out.append(cur)
                cur = 1
            else:
                cur += 1
        out.append(cur)
        yield out


def cut(seq, lens):
    out = []
    p = 0
    for k in lens:
        out.append(seq[p:p + k])
        p += k
    return out


_rag = re.compile(r'record (\d+) -> (\d+) fields, record (\d+) -> (\d+) fields')
_def = re.compile(r'E\.g\. at line (\d+)')
_err = re.compile(r'at record (\d+), line (\d+)')


def run_reader(mods, stream, encoding, dlm, policy, cmt, header, chunk_size):
    """Run the real reader; project what it reports onto the fields of CsvReader!Result."""
    rbql, rbql_engine, rbql_csv, csv_utils = mods
    res = {'recs': [], 'bom': False, 'firstdef': 0, 'ragged': [], 'err': False, 'errnr': 0, 'errnl': 0}
    hdr = None
    it = None
    try:
        it = rbql_csv.CSVRecordIterator(stream, encoding, dlm, policy, has_header=header, comment_prefix=(chr(cmt) if cmt else None), chunk_size=chunk_size)
        hdr = it.get_header()
        while True:
            r = it.get_record()
            if r is None:
                break
            res['recs'].append(r)
    except rbql_engine.RbqlIOHandlingError as e:
        rl = messages.record_and_line(str(e))
        if rl is None:
            return {'other_error': 'IOERR ' + str(e)}, None       # an IO-handling error that cites no record / line: the decoding error
        res['err'] = True
        res['errnr'], res['errnl'] = rl
    except Exception as e:  # noqa -- a raw exception (e.g. UnicodeDecodeError) escaping the reader
        return {'other_error': 'RAW ' + type(e).__name__ + ': ' + str(e)}, None
    if it is not None:
        for w in it.get_warnings():
            k = messages.classify_warning(w)
            if k[0] == 'bom':
                res['bom'] = True
            elif k[0] == 'quoting':
                res['firstdef'] = k[1]
            elif k[0] == 'ragged':
                res['ragged'] = k[1]
    else:
        # the constructor itself failed (pre-read of the first record)
        res['firstdef'] = res['errnl']
    if res['err']:
        res['firstdef'] = res['errnl']
    return res, hdr


def expected(case, header):
    ref = case['ref']
    exp = {'recs': [ss(r) for r in ref['recs']], 'bom': ref['bom'], 'firstdef': ref['firstdef'], 'ragged': list(ref['ragged']),
           'err': ref['err'], 'errnr': ref['errnr'], 'errnl': ref['errnl']}
    hdr = None
    if header:
        if case['hdr']['has']:
            hdr = ss(case['hdr']['header'])
            exp['recs'] = [ss(r) for r in case['hdr']['data']]
        elif ref['err'] and ref['errnr'] == 1:
            hdr = None
    return exp, hdr


def compare(exp, ehdr, got, ghdr, header, sig_base, sigs):
    if 'other_error' in got:
        sigs.append(dict(sig_base, what='unexpected error', got=got['other_error']))
        return
    if got['err'] != exp['err']:
        sigs.append(dict(sig_base, what='error presence', got=got, want=exp))
        return
    keys = ['recs', 'bom', 'firstdef', 'errnr', 'errnl']
    # with a header the reader's record numbers still count the header line; with an error before any record only the error is compared
    keys.append('ragged')
    for k in keys:
        if exp['err'] and k in ('ragged', 'bom', 'firstdef'):
            continue        # when reading fails (possibly inside the constructor) the warnings are not observable; the error itself is compared
        if got[k] != exp[k]:
            sigs.append(dict(sig_base, what=k, got=got[k], want=exp[k]))
            return
    if header and not exp['err'] and ghdr != ehdr:
        sigs.append(dict(sig_base, what='header', got=ghdr, want=ehdr))


def _replay(cases):
    mods = impl.load()
    out = []
    for case in cases:
        text = s(case['text'])
        dlm = s(case['dlm'])
        n = len(text)
        sigs = []
        runs = 0
        enc = case['enc']
        for header in (False, True):
            exp, ehdr = expected(case, header)
            base = {'impl': 'py', 'policy': case['policy'], 'cmt': case['cmt'], 'header': header, 'enc': enc}
            if enc == 'none':
                # all partitions, short reads (chunk_size larger than any piece)
                for lens in partitions(n):
                    got, ghdr = run_reader(mods, ScriptedStream(cut(text, lens)), None, dlm, case['policy'], case['cmt'], header, 1024)
                    runs += 1
                    compare(exp, ehdr, got, ghdr, header, dict(base, schedule='partition', lens=str(lens)), sigs)
                # whole text, every chunk size
                for cs in range(1, n + 2):
                    got, ghdr = run_reader(mods, ScriptedStream([text]), None, dlm, case['policy'], case['cmt'], header, cs)
                    runs += 1
                    compare(exp, ehdr, got, ghdr, header, dict(base, schedule='chunk_size', cs=cs), sigs)
                # io.StringIO as the stream (what a caller passes)
                got, ghdr = run_reader(mods, io.StringIO(text, newline=''), None, dlm, case['policy'], case['cmt'], header, 3)
                runs += 1
                compare(exp, ehdr, got, ghdr, header, dict(base, schedule='stringio'), sigs)
            else:
                data = text.encode('utf-8' if enc == 'utf-8' else 'latin-1')
                for lens in partitions(len(data)):
                    raw = io.BufferedReader(ScriptedRaw(cut(data, lens)), buffer_size=16)
                    for cs in (1, 2, 1024):
                        raw = io.BufferedReader(ScriptedRaw(cut(data, lens)), buffer_size=16)
                        got, ghdr = run_reader(mods, raw, enc, dlm, case['policy'], case['cmt'], header, cs)
                        runs += 1
                        compare(exp, ehdr, got, ghdr, header, dict(base, schedule='bytes', lens=str(lens), cs=cs), sigs)
                got, ghdr = run_reader(mods, io.BytesIO(data), enc, dlm, case['policy'], case['cmt'], header, 1024)
                runs += 1
                compare(exp, ehdr, got, ghdr, header, dict(base, schedule='bytesio'), sigs)
        out.append((runs, sigs[:3]))
    return out


def reader_cfg(path, alphabet, maxlen, policies, cmts, enc, emit=True, mut='', progress=True):
    consts = {'Alphabet': '{' + ', '.join(map(str, alphabet)) + '}', 'MaxLen': maxlen,
              'Policies': '{' + ', '.join('"%s"' % p for p in policies) + '}',
              'CommentChars': '{' + ', '.join(map(str, cmts)) + '}', 'Enc': '"%s"' % enc, 'DlmA': 44,
              'EmitCases': 'TRUE' if emit else 'FALSE', 'MUT': '"%s"' % mut}
    inv = ['ScheduleIndependent', 'ErrIff', 'NoLoss', 'Emit']
    if progress:
        inv.append('Progress')
    return tlcrun.write_cfg(path, constants=consts, invariants=inv)


ALL_POL = ['simple', 'quoted', 'quoted_rfc']


def mc_and_replay(run, name, alphabet, maxlen, enc, policies=ALL_POL, cmts=(0, 35)):
    d = tlcrun.new_scratch('c12')
    cfg = reader_cfg(os.path.join(d, name + '.cfg'), alphabet, maxlen, policies, cmts, enc, progress=(run.tier != 'quick'))
    res = tlcrun.run_tlc('CsvReader', cfg, coverage=(run.tier != 'quick'), timeout=7200, heap='24g')
    run.add_tlc('CsvReader:%s:len<=%d' % (name, maxlen), res)
    ntexts = sum(len(alphabet) ** k for k in range(maxlen + 1))
    want = ntexts * len(policies) * len(cmts)
    # one case per (text, policy, comment); an error can leave different unread remainders behind on different schedules, so the
    # same case may be printed from several terminal states (their Result is equal by the invariant ScheduleIndependent)
    uniq = {}
    for c in res.cases:
        uniq[(tuple(c['text']), c['policy'], c['cmt'])] = c
    if len(uniq) != want:
        core.machinery_failure('%s: expected %d emitted cases (one per text x policy x comment), got %d' % (name, want, len(uniq)))
    res.cases = list(uniq.values())
    run.sample({'config': name, 'case': res.cases[len(res.cases) * 2 // 3]})
    out = par.pmap(_replay, res.cases, chunk=500)
    for case, (runs, sigs) in zip(res.cases, out):
        run.traces += runs
        t = case['text']
        run.count([name, case['policy'], case['cmt'], t], nontrivial=(len(t) >= 2 and (10 in t or 13 in t or 34 in t)), n=runs)
        for sig in sigs:
            run.violation(sig, {'kind': 'reader_case', 'case': case})


RICH = ['a', 'b', '"', '"', ',', ',', '\n', '\n', '\r', '\r', '\r\n', '#', ' ', 'é', '中', '\U0001F600', '""', '","', '"\n"']


def _record(jobs):
    mods = impl.load()
    out = []
    for tid, text, policy, cmt, cs, lens in jobs:
        log = []
        st = ScriptedStream(cut(text, lens), log)
        got, _ = run_reader(mods, st, None, ',', policy, cmt, False, cs)
        out.append({'tid': tid, 'text': cps(text), 'policy': policy, 'cmt': cmt, 'cs': cs, 'reads': log,
                    'result': got if 'other_error' not in got else {'recs': [], 'bom': False, 'firstdef': -1, 'ragged': [], 'err': True, 'errnr': -1, 'errnl': -1}})
        if 'other_error' not in got:
            out[-1]['result']['recs'] = [cpss(r) for r in got['recs']]
    return out


def validate_traces(run, traces, label):
    d = tlcrun.new_scratch('c12trace')
    path = os.path.join(d, 'traces.ndjson')
    with open(path, 'w') as f:
        for t in traces:
            f.write(json.dumps(t) + '\n')
    consts = {'Alphabet': '{}', 'MaxLen': 0, 'Policies': '{}', 'CommentChars': '{}', 'Enc': '"none"', 'DlmA': 44, 'EmitCases': 'FALSE', 'MUT': '""'}
    cfg = tlcrun.write_cfg(os.path.join(d, 'trace.cfg'), constants=consts, init='TInit', next_='TNext', invariants=['Report'])
    res = tlcrun.run_tlc('CsvReaderTrace', cfg, workers=1, env={'TRACE_FILE': path}, timeout=7200)
    run.add_tlc('CsvReaderTrace:' + label, res)
    oks = set(c['ok'] for c in res.cases if 'ok' in c)
    rej = {c['reject']: c for c in res.cases if 'reject' in c}
    if not any('consumed' in c for c in res.cases) or len(oks) + len(rej) != len(traces):
        core.machinery_failure('reader trace batch not consumed to its end (%d ok, %d rejected, %d traces)' % (len(oks), len(rej), len(traces)))
    for t in traces:
        run.traces += 1
        run.count(['trace', t['policy'], t['cmt'], t['cs'], t['text'], str(t['reads'])], nontrivial=len(t['reads']) >= 3)
        if t['tid'] in rej:
            c = rej[t['tid']]
            run.violation({'impl': 'py', 'what': 'trace rejected by CsvReaderTrace', 'policy': t['policy'], 'cmt': t['cmt'], 'at_event': c['at'], 'pc': c['pc'],
                           'machine': c['machine'], 'recorded': t['result']}, {'kind': 'reader_trace', 'trace': t})
    return oks, rej


def random_traces(run, n):
    rnd = random.Random(run.seed + 12)
    jobs = []
    for tid in range(1, n + 1):
        text = ''.join(rnd.choice(RICH) for _ in range(rnd.randint(0, 30)))
        policy = rnd.choice(ALL_POL)
        cmt = rnd.choice([0, 35])
        cs = rnd.choice([1, 2, 3, 5, 8, 1024])
        lens = []
        left = len(text)
        while left > 0:
            k = rnd.randint(1, min(left, rnd.choice([1, 2, 4, 9, 40])))
            lens.append(k)
            left -= k
        jobs.append((tid, text, policy, cmt, cs, lens))
    return par.pmap(_record, jobs, chunk=1000)


def self_tests(run):
    d = tlcrun.new_scratch('c12mut')
    for mut in ('no_cr_lookahead', 'drop_unterminated_last_line'):
        cfg = reader_cfg(os.path.join(d, mut + '.cfg'), [97, 10, 13, 44], 3, ALL_POL, [0], 'none', emit=False, mut=mut, progress=False)
        res = tlcrun.run_tlc('CsvReader', cfg, expect_violation=True)
        if res.violation is None:
            core.machinery_failure('spec mutant %s not rejected by TLC' % mut)
        run.notes.setdefault('spec_mutants_rejected', []).append('CsvReader/%s -> %s' % (mut, res.violation))


def check(run):
    quick = run.tier == 'quick'
    run.rule = ('case = (text, policy, comment prefix) with every text up to the bound over {a, quote, comma, LF, CR, #, space}; each case is delivered to the real '
                'CSVRecordIterator under all 2^(n-1) partitions (short reads), all chunk sizes 1..n+1 and through io.StringIO, with and without header; BOM / multi-byte '
                'configs additionally under all byte-level partitions of the utf-8 / latin-1 encoding x chunk sizes {1,2,1024}; evaluations = reader runs; distinct by case; '
                'non-trivial = text of length >= 2 containing a line break or a quote (traces: >= 3 read events)')
    run.assumptions = ['single-character delimiter "," in the reader configs (the dialect itself is C11)', 'single-character comment prefix']
    self_tests(run)
    base = [97, 34, 44, 10, 13, 35, 32]
    mc_and_replay(run, 'base7', base, 4 if quick else 6, 'none')
    # BOM handling: text level has no BOM stripping (encoding None); utf-8 strips the BOM character, latin-1 the three bytes
    mc_and_replay(run, 'bom-utf8', [97, 65279, 10, 44], 3 if quick else 5, 'utf-8', policies=['quoted', 'quoted_rfc'], cmts=[0])
    mc_and_replay(run, 'bom-and-comment', [97, 65279, 35, 10], 4 if quick else 5, 'utf-8', policies=['quoted', 'quoted_rfc'], cmts=[0, 35])
    mc_and_replay(run, 'bom-latin1', [97, 239, 187, 191, 10], 4 if quick else 5, 'latin-1', policies=['quoted'], cmts=[0])
    # multi-byte characters split across raw reads
    mc_and_replay(run, 'multibyte', [97, 233, 8364, 128512, 10, 13], 3 if quick else 4, 'utf-8', policies=['quoted'], cmts=[0])
    run.exhaustive = True
    traces = random_traces(run, 1500 if quick else 30000)
    run.sample({'trace': {'text': s(traces[0]['text']), 'policy': traces[0]['policy'], 'cs': traces[0]['cs'], 'reads': [[n, s(p)] for n, p in traces[0]['reads']]}})
    validate_traces(run, traces, 'random')
    # corrupted-trace controls (R5 iii): drop one read event / change one recorded field -> must be rejected
    ctl = core.Run(run.prop, run.tier, run.seed)
    ctl.findings = []
    bad1 = dict([t for t in traces if len(t['reads']) >= 3][0])
    bad1['reads'] = bad1['reads'][:1] + bad1['reads'][2:]
    bad2 = dict([t for t in traces if t['result']['recs']][0])
    bad2['result'] = dict(bad2['result'], recs=bad2['result']['recs'][:-1])
    bad1['tid'], bad2['tid'] = 1, 2
    oks, rej = validate_traces(ctl, [bad1, bad2], 'controls')
    if len(rej) != 2:
        core.machinery_failure('corrupted reader traces were accepted: %s' % sorted(oks))
    run.notes['corrupted_traces_rejected'] = 2


def replay(path):
    with open(path) as f:
        rep = json.load(f)
    run = core.Run('C12', 'quick', 0)
    c = rep['case']
    if c['kind'] == 'reader_case':
        for runs, sigs in _replay([c['case']]):
            run.traces += runs
            for sig in sigs:
                run.violation(sig, c)
    else:
        t = c['trace']
        lens = [len(p) for n, p in t['reads'] if p]
        t2 = _record([(t['tid'], s(t['text']), t['policy'], t['cmt'], t['cs'], lens)])
        validate_traces(run, t2, 'replay')
    return run.finish()
