"""C09 -- column-name variables bind to the right column; the header line is never data; WITH overrides the flag.

(A) TLC: Names -- Unescape(Escape(name, q)) = name, escaped text is a well-formed literal body; header /
    no-header state machine (caller flag x WITH modifier): header line never emitted in header mode.
(B) spec -> code: every name within the bound (x quote style x column position) is used as a column name
    through four back-ends -- list (input_column_names, normalized and direct mode), CSV file (header line =
    TLC's RfcQuoteField rendering), pandas (columns=), sqlite (quoted identifier) -- and referenced as
    a["<TLC's escaped text>"] / a['..'] / a.name / bare name; the query must return that column, NR = 1..n,
    and never the header line.  Caller flag x modifier cases run through query_csv (input and join table).
"""
import json
import os
import shutil
import sqlite3
import tempfile

from .. import core, tlcrun, par, impl
from . import readerapi
from ..text import s
s_ = s

ALPHABET = [97, 49, 95, 32, 34, 39, 92, 91, 93, 9, 10, 13, 46, 233, 45, 110]
PUNCT = [37, 36, 94, 40, 41, 123, 125, 61, 35, 42, 43, 63, 124, 47, 58, 59, 44, 60, 62, 33, 64, 38, 126, 96, 20013, 128512]
def names_cfg(path, maxname, flags, modifiers, alphabet=ALPHABET, emit=True, mut=''):
    consts = {'NameAlphabet': '{' + ', '.join(map(str, alphabet)) + '}', 'MaxName': maxname,
              'FlagSet': '{' + ', '.join('TRUE' if f else 'FALSE' for f in flags) + '}',
              'ModifierSet': '{' + ', '.join('"%s"' % m for m in modifiers) + '}',
              'EmitCases': 'TRUE' if emit else 'FALSE', 'MUT': '"%s"' % mut}
    return tlcrun.write_cfg(path, constants=consts, invariants=['EscapeRoundTrip', 'HeaderNeverData', 'Emit'])


DATA = [['v11', 'v12'], ['v21', 'v22'], ['v31', 'v32']]


def _bind_chunk(items):
    mods = impl.load()
    rbql, eng, rcsv, cu = mods
    from rbql import rbql_pandas, rbql_sqlite
    import pandas as pd
    out = []
    for k, case in items:
        sigs = []
        nruns = 0
        # the literal inside the brackets is TLC's Escape(name, quote); the CSV header line is TLC's rendering too (R1)
        name = s_(case['name'])
        esc = s_(case['escaped'])
        qc = chr(case['quote'])
        pos = case['pos']
        header = [name, 'k'] if pos == 1 else ['k', name]
        want = [[r[pos - 1], i + 1] for i, r in enumerate(DATA)]
        refs = ['a[%s%s%s]' % (qc, esc, qc)]
        if case['ident'] and name.isascii():
            refs.append('a.' + name)
        base = {'impl': 'py', 'name': name, 'pos': pos}

        def check_rows(front, ref, rows, err):
            if err is not None:
                sigs.append(dict(base, backend=front, ref=ref, what='query failed', got=err))
            elif rows != want:
                sigs.append(dict(base, backend=front, ref=ref, what='wrong column bound', got=rows, want=want))

        for ref in refs:
            q = 'select %s, NR' % ref
            # list back-end
            res, err = [], None
            try:
                rbql.query_table(q, [list(r) for r in DATA], res, [], None, list(header))
            except Exception as e:  # noqa
                err = type(e).__name__ + ': ' + str(e)[:120]
            nruns += 1
            check_rows('list', ref, res, err)
            # pandas
            err = None
            rows = None
            try:
                df = pd.DataFrame([list(r) for r in DATA], columns=list(header))
                rdf = rbql_pandas.query_dataframe(q, df)
                rows = [[r[0], int(r[1])] for r in rdf.values.tolist()]
            except Exception as e:  # noqa
                err = type(e).__name__ + ': ' + str(e)[:120]
            nruns += 1
            check_rows('pandas', ref, rows, err)
        # direct mode: the bare name is the variable
        if case['ident'] and name.isascii() and name not in ('k', 'NR', 'NF', 'a', 'b', 'n', 'select', 'NU'):
            res, err = [], None
            try:
                rbql.query_table('select %s, NR' % name, [list(r) for r in DATA], res, [], None, list(header), normalize_column_names=False)
            except Exception as e:  # noqa
                err = type(e).__name__ + ': ' + str(e)[:120]
            nruns += 1
            check_rows('list-direct', name, res, err)
        # sqlite: quoted identifier
        if '\x00' not in name:
            d = tempfile.mkdtemp(prefix='rbqlverif_c09_')
            try:
                con = sqlite3.connect(os.path.join(d, 't.db'))
                cols = ', '.join('"%s" TEXT' % h.replace('"', '""') for h in header)
                con.execute('CREATE TABLE T1 (%s)' % cols)
                con.executemany('INSERT INTO T1 VALUES (?, ?)', DATA)
                con.commit()
                outp = os.path.join(d, 'o.csv')
                err = None
                rows = None
                try:
                    rbql_sqlite.query_sqlite_to_csv('select %s, NR' % refs[0], con, 'T1', outp, ',', 'quoted', 'utf-8', [])
                    # the output header may span lines (a name with a line break): the data rows are the last three non-empty lines
                    data_lines = [l for l in open(outp, encoding='utf-8').read().split('\n') if l][-3:]
                    rows = [[l.rsplit(',', 1)[0], int(l.rsplit(',', 1)[1])] for l in data_lines]
                except Exception as e:  # noqa
                    err = type(e).__name__ + ': ' + str(e)[:120]
                con.close()
                nruns += 1
                check_rows('sqlite', refs[0], rows, err)
                # CSV file: header line as TLC rendered it (quoted_rfc); CR inside a name is normalised to LF by the reader, so such names are not CSV headers
                if 13 not in case['name'] and not name.startswith('﻿'):
                    hline = s_(case['csvheader'])
                    inp = os.path.join(d, 'in.csv')
                    with open(inp, 'w', newline='', encoding='utf-8') as f:
                        f.write(hline + '\n' + ''.join(','.join(r) + '\n' for r in DATA))
                    err = None
                    rows = None
                    try:
                        rcsv.query_csv('select %s, NR' % refs[0], inp, ',', 'quoted_rfc', outp, ',', 'quoted_rfc', 'utf-8', [], True)
                        txt = open(outp, encoding='utf-8').read()
                        lines = txt.split('\n')
                        # the output header may span lines (name with LF): data rows are the last three non-empty lines
                        data_lines = [l for l in lines if l][-3:]
                        rows = [[l.rsplit(',', 1)[0], int(l.rsplit(',', 1)[1])] for l in data_lines]
                        if hline.split('\n')[0] and any(r[0] == name for r in rows):
                            sigs.append(dict(base, backend='csv', what='header line emitted as data'))
                    except Exception as e:  # noqa
                        err = type(e).__name__ + ': ' + str(e)[:120]
                    nruns += 1
                    check_rows('csv', refs[0], rows, err)
            finally:
                shutil.rmtree(d, ignore_errors=True)
        out.append((k, sigs, nruns))
    return out


def _modifier_chunk(items):
    mods = impl.load()
    rbql, eng, rcsv, cu = mods
    out = []
    for k, case in items:
        sigs = []
        d = tempfile.mkdtemp(prefix='rbqlverif_c09m_')
        try:
            lines = ['h1,h2', 'r1,x', 'r2,y']
            inp = os.path.join(d, 'in.csv')
            jn = os.path.join(d, 'J.csv')
            outp = os.path.join(d, 'o.csv')
            open(inp, 'w').write(''.join(l + '\n' for l in lines))
            open(jn, 'w').write(''.join(l + '\n' for l in lines))
            mod = '' if case['modifier'] == 'none' else ' with (%s)' % case['modifier']
            want_lines = [lines[i] for i in case['emitted']]
            # input table
            err = None
            try:
                rcsv.query_csv('select a1, a2, NR' + mod, inp, ',', 'quoted', outp, ',', 'quoted', 'utf-8', [], bool(case['flag']))
                got = [l for l in open(outp).read().split('\n') if l]
            except Exception as e:  # noqa
                err = type(e).__name__ + ': ' + str(e)[:100]
                got = None
            want = ['%s,%d' % (l, i + 1) for i, l in enumerate(want_lines)]
            if case['effective']:
                want = ['h1,h2,NR'] + want
            if err or got != want:
                sigs.append({'impl': 'py', 'backend': 'csv', 'what': 'header / no-header mode (input table)', 'flag': case['flag'], 'modifier': case['modifier'], 'got': got if not err else err, 'want': want})
            # join table: the same flag / modifier governs it
            err = None
            try:
                rcsv.query_csv('select a1, b2, bNR join J.csv on a1 == b1' + mod, inp, ',', 'quoted', outp, ',', 'quoted', 'utf-8', [], bool(case['flag']))
                got = [l for l in open(outp).read().split('\n') if l]
            except Exception as e:  # noqa
                err = type(e).__name__ + ': ' + str(e)[:100]
                got = None
            want = ['%s,%s,%d' % (l.split(',')[0], l.split(',')[1], i + 1) for i, l in enumerate(want_lines)]
            if case['effective']:
                want = ['h1,h2,bNR'] + want        # bare variables name their column (C07)
            if err or got != want:
                sigs.append({'impl': 'py', 'backend': 'csv', 'what': 'header / no-header mode (join table)', 'flag': case['flag'], 'modifier': case['modifier'], 'got': got if not err else err, 'want': want})
            # column names of BOTH tables bind exactly when the effective mode is "header" (whoever decided it: flag or modifier)
            for qn, q in enumerate(('select a.h1, b.h2, bNR join J.csv on a.h1 == b.h1', 'select a["h1"], b[\'h2\'], bNR join J.csv on a1 == b["h1"]')):
                err = None
                try:
                    rcsv.query_csv(q + mod, inp, ',', 'quoted', outp, ',', 'quoted', 'utf-8', [], bool(case['flag']))
                    got = [l for l in open(outp).read().split('\n') if l]
                except Exception as e:  # noqa
                    err = type(e).__name__ + ': ' + str(e)[:100]
                    got = None
                if case['effective']:
                    if err or got != want:
                        sigs.append({'impl': 'py', 'backend': 'csv', 'what': 'named columns of input and join table under the effective header mode', 'flag': case['flag'], 'modifier': case['modifier'],
                                     'query': qn, 'got': got if not err else err, 'want': want})
                elif not err:
                    sigs.append({'impl': 'py', 'backend': 'csv', 'what': 'column names bound although the effective mode has no header', 'flag': case['flag'], 'modifier': case['modifier'], 'query': qn, 'got': got})
        finally:
            shutil.rmtree(d, ignore_errors=True)
        out.append((k, sigs, 4))
    return out


def case_variant_names(run):
    """Distinct names that differ only in letter case (id, ID, Id) are distinct columns: each reference form binds to its own position
    (the binding rule of Names.tla: a name denotes the column whose header cell equals it), through lists, a CSV header line and pandas."""
    mods = impl.load()
    rbql, eng, rcsv, cu = mods
    from rbql import rbql_pandas
    import pandas as pd
    header = ['id', 'ID', 'Id']
    data = [['r1a', 'r1b', 'r1c'], ['r2a', 'r2b', 'r2c']]
    d = tempfile.mkdtemp(prefix='rbqlverif_c09v_')
    try:
        inp = os.path.join(d, 'in.csv')
        open(inp, 'w').write(','.join(header) + '\n' + ''.join(','.join(r) + '\n' for r in data))
        for pos, name in enumerate(header):
            want = [[r[pos]] for r in data]
            for ref in ('a.' + name, 'a["%s"]' % name, "a['%s']" % name):
                q = 'select ' + ref
                results = {}
                try:
                    out = []
                    rbql.query_table(q, [list(r) for r in data], out, [], None, list(header))
                    results['list'] = out
                except Exception as e:  # noqa
                    results['list'] = 'raised ' + str(e)[:80]
                try:
                    outp = os.path.join(d, 'o.csv')
                    rcsv.query_csv(q, inp, ',', 'quoted', outp, ',', 'quoted', 'utf-8', [], True)
                    results['csv'] = [l.split(',') for l in open(outp).read().split('\n') if l][1:]
                except Exception as e:  # noqa
                    results['csv'] = 'raised ' + str(e)[:80]
                try:
                    results['pandas'] = rbql_pandas.query_dataframe(q, pd.DataFrame(data, columns=header)).values.tolist()
                except Exception as e:  # noqa
                    results['pandas'] = 'raised ' + str(e)[:80]
                for backend, got in results.items():
                    run.traces += 1
                    run.count(['casevariant', name, ref, backend], nontrivial=True)
                    if got != want:
                        run.violation({'impl': 'py', 'backend': backend, 'what': 'names differing only in letter case: reference bound to another column', 'ref': ref, 'got': got, 'want': want},
                                      {'kind': 'case_variant', 'ref': ref})
    finally:
        shutil.rmtree(d, ignore_errors=True)


def direct_mode_last_token(run):
    """Direct mode (normalize_column_names=False: the bare name is the variable): a name binds to its column wherever it stands in the query text,
    in particular as its very last token."""
    mods = impl.load()
    rbql, eng, rcsv, cu = mods
    from rbql import rbql_pandas
    import pandas as pd
    header = ['name', 'city', 'age']
    data = [['ann', 'rome', '30'], ['bob', 'oslo', '25']]
    for pos, name in enumerate(header):
        other = header[(pos + 1) % 3]
        for q, want in (('select ' + name, [[r[pos]] for r in data]),
                        ('select %s, %s' % (other, name), [[r[(pos + 1) % 3], r[pos]] for r in data]),
                        ('select %s order by %s' % (other, name), [[r[(pos + 1) % 3]] for r in sorted(data, key=lambda r: r[pos])]),
                        ('select %s where "a" < %s' % (other, name), [[r[(pos + 1) % 3]] for r in data if 'a' < r[pos]])):
            results = {}
            try:
                out = []
                rbql.query_table(q, [list(r) for r in data], out, [], None, list(header), None, None, False)
                results['list-direct'] = out
            except Exception as e:  # noqa
                results['list-direct'] = 'raised ' + str(e)[:80]
            try:
                results['pandas-direct'] = rbql_pandas.query_dataframe(q, pd.DataFrame(data, columns=header), normalize_column_names=False).values.tolist()
            except Exception as e:  # noqa
                results['pandas-direct'] = 'raised ' + str(e)[:80]
            for backend, got in results.items():
                run.traces += 1
                run.count(['direct-last-token', q, backend], nontrivial=True)
                if got != want:
                    run.violation({'impl': 'py', 'backend': backend, 'what': 'direct mode: bare column name not bound (position in the query text matters)', 'query': q, 'got': got, 'want': want},
                                  {'kind': 'direct_mode', 'query': q})


def direct_mode_positional_lookalikes(run):
    """Direct mode: column NAMES that are spelled like positional variables (a3 in position 1, b1 in position 2 of the join table) still denote the
    column at their header position - 'the bare name denotes exactly the column at that header position, for every set of distinct names'."""
    mods = impl.load()
    rbql, eng, rcsv, cu = mods
    from rbql import rbql_pandas
    import pandas as pd
    data = [['u1', 'v1', 'w1'], ['u2', 'v2', 'w2']]
    for header in (['a3', 'key', 'a1'], ['a2', 'a1', 'x'], ['a1', 'a3', 'a2'], ['x', 'a1', 'y'], ['a1', 'a2', 'a3']):
        queries = [('select ' + ', '.join(header), [list(r) for r in data])]
        for pos, name in enumerate(header):
            queries.append(('select NR, ' + name, [[i + 1, r[pos]] for i, r in enumerate(data)]))
            queries.append(('select NR where %s == "%s"' % (name, data[1][pos]), [[2]]))
        for q, want in queries:
            results = {}
            try:
                out = []
                rbql.query_table(q, [list(r) for r in data], out, [], None, list(header), None, None, False)
                results['list-direct'] = out
            except Exception as e:  # noqa
                results['list-direct'] = 'raised ' + str(e)[:80]
            try:
                results['pandas-direct'] = rbql_pandas.query_dataframe(q, pd.DataFrame(data, columns=header), normalize_column_names=False).values.tolist()
            except Exception as e:  # noqa
                results['pandas-direct'] = 'raised ' + str(e)[:80]
            for backend, got in results.items():
                run.traces += 1
                run.count(['direct-lookalike', header, q, backend], nontrivial=True)
                if got != want:
                    run.violation({'impl': 'py', 'backend': backend, 'what': 'direct mode: a column named like a positional variable is not bound to its header position', 'query': q, 'header': ' '.join(header), 'got': got, 'want': want},
                                  {'kind': 'direct_mode', 'query': q, 'header': header})
    # the join table: names spelled b<N>
    A = [['p', '1'], ['q', '2']]
    B = [['x', '1'], ['y', '2']]
    for bhdr, q, want in ((['b2', 'b1'], 'select k, b2 join B on v == b1', [['p', 'x'], ['q', 'y']]),
                          (['b2', 'b1'], 'select k, b1 join B on v == b1', [['p', '1'], ['q', '2']]),
                          (['val', 'b1'], 'select k, val join B on v == b1', [['p', 'x'], ['q', 'y']])):
        try:
            got = []
            rbql.query_table(q, [list(r) for r in A], got, [], [list(r) for r in B], ['k', 'v'], list(bhdr), None, False)
        except Exception as e:  # noqa
            got = 'raised ' + str(e)[:80]
        run.traces += 1
        run.count(['direct-lookalike-join', bhdr, q], nontrivial=True)
        if got != want:
            run.violation({'impl': 'py', 'backend': 'list-direct', 'what': 'direct mode: a join column named like a positional variable is not bound to its header position', 'query': q, 'header': ' '.join(bhdr), 'got': got, 'want': want},
                          {'kind': 'direct_mode', 'query': q, 'header': bhdr})


def check(run):
    quick = run.tier == 'quick'
    maxname = 2 if quick else 3
    run.rule = ('case = (column name of <= %d characters over 16 character classes {letter, digit, _, space, ", \', \\, [, ], TAB, LF, CR, ., non-ASCII, punctuation, the letter n}, quote style, column position) from TLC with the '
                'escaped literal text; each name used through list (normalized and direct), pandas, sqlite, CSV back-ends and referenced as a["..."] / a[\'..\'] / a.name / bare; '
                'plus caller flag x WITH modifier x {input, join} through query_csv; non-trivial = name contains a special character' % maxname)
    run.assumptions = ['names containing an a.ident / b.ident token are excluded (acknowledged limitation)', 'names with CR are not used as CSV header cells (quoted_rfc reading normalises CR to LF)']
    d = tlcrun.new_scratch('c09')
    mres = tlcrun.run_tlc('Names', names_cfg(os.path.join(d, 'mut.cfg'), 1, [True, False], ['none', 'header', 'noheader'], emit=False, mut='modifier_keeps_emit'), expect_violation=True)
    if mres.violation is None:
        core.machinery_failure('Names mutant not rejected')
    run.notes.setdefault('spec_mutants_rejected', []).append('Names/modifier_keeps_emit -> ' + mres.violation)
    res = tlcrun.run_tlc('Names', names_cfg(os.path.join(d, 'names.cfg'), maxname, [True], ['none']), coverage=not quick, timeout=7200, heap='24g')
    # more punctuation / non-BMP characters next to the escaping-relevant ones (names of <= 2)
    resp = tlcrun.run_tlc('Names', names_cfg(os.path.join(d, 'punct.cfg'), 2 if not quick else 1, [True], ['none'], alphabet=PUNCT + [34, 39, 92]), timeout=7200)
    run.add_tlc('Names:punctuation', resp)
    res.cases.extend(resp.cases)
    run.add_tlc('Names:names<=%d' % maxname, res)
    items = list(enumerate(res.cases))
    run.sample({'name_case': {'name': s(res.cases[len(items) // 2]['name']), 'escaped': s(res.cases[len(items) // 2]['escaped']), 'quote': chr(res.cases[len(items) // 2]['quote'])}})
    out = par.pmap(_bind_chunk, items, chunk=100)
    for (k, case), (_, sigs, nruns) in zip(items, out):
        run.traces += nruns
        run.count(['name', case['name'], case['quote'], case['pos']], nontrivial=any(c in case['name'] for c in (32, 34, 39, 92, 91, 93, 9, 10, 13, 46)), n=nruns)
        for sig in sigs[:4]:
            run.violation(sig, {'kind': 'name_case', 'case': case, 'k': k})
    res2 = tlcrun.run_tlc('Names', names_cfg(os.path.join(d, 'mods.cfg'), 1, [True, False], ['none', 'header', 'headers', 'noheader', 'noheaders'], alphabet=[97]))
    run.add_tlc('Names:flag-x-modifier', res2)
    mitems = list(enumerate(res2.cases))
    out = par.pmap(_modifier_chunk, mitems, chunk=10)
    for (k, case), (_, sigs, nruns) in zip(mitems, out):
        run.traces += nruns
        run.count(['modifier', case['flag'], case['modifier'], case['pos'], case['quote']], nontrivial=True, n=nruns)
        for sig in sigs:
            run.violation(sig, {'kind': 'modifier_case', 'case': case, 'k': k})
    case_variant_names(run)
    direct_mode_last_token(run)
    direct_mode_positional_lookalikes(run)
    # the header line is never data at the record-level API either: every history of get_record / get_all_records(n) / get_header /
    # get_warnings / WITH modifier (spec/ReaderApi.tla: NoLossNoDup, HeaderStable), replayed into CSVRecordIterator
    # (only mismatches about the header line are C09's; reply counts, end of input and warnings are reported by ./check EXT)
    readerapi.check(run, quick, clauses=('header',))
    run.exhaustive = True


def replay(path):
    with open(path) as f:
        rep = json.load(f)
    c = rep['case']
    run = core.Run('C09', 'quick', 0)
    if c['kind'] == 'reader_api':
        for _, sigs in readerapi._replay_chunk([(0, c['case'], c['variant'])]):
            run.traces += 1
            for sig in sigs:
                if sig.get('clause') == 'header':
                    run.violation(sig, c)
        return run.finish()
    if c['kind'] in ('direct_mode', 'case_variant'):
        direct_mode_last_token(run)
        direct_mode_positional_lookalikes(run)
        case_variant_names(run)
        return run.finish()
    fn = _bind_chunk if c['kind'] == 'name_case' else _modifier_chunk
    for k, sigs, nruns in fn([(c.get('k', 0), c['case'])]):
        run.traces += nruns
        for sig in sigs:
            run.violation(sig, c)
    return run.finish()
