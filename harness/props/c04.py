"""C04 -- JOIN pairs each A record with exactly its key-equal B records."""
from .. import enginecheck as ec


def check(run):
    quick = run.tier == 'quick'
    run.rule = ('case = (join query: {inner, left, strict} x key shapes {a1==b1, NR==bNR, a2==b1, two pairs, NR==b1} x downstream shape, tables A, B incl. empty / duplicate keys / ragged) '
                'enumerated by TLC; replayed into rbql.query with a ListTableRegistry-like recording registry; B must be read completely before A (monitor); '
                'non-trivial = >= 2 input records and (>= 1 output row or an error)')
    run.assumptions = ['join keys are cells or NR/bNR']
    ec.spec_mutant(run, 'Q_C04pairs', 'R_2x2', 'unnest_reset_per_record', recsB='R_2x2', maxA=1, maxB=2)
    if quick:
        ec.run_family(run, 'C04-select', 'Q_C04selQ', 'R_q4', recsB='R_q4', maxA=2, maxB=2)
        ec.run_family(run, 'C04-pairs', 'Q_C04pairs', 'R_q4', recsB='R_q4', maxA=2, maxB=2, hdrmodes=(False, True))
        ec.run_family(run, 'C04-order-distinct-top', 'Q_C02joinok', 'R_2x2', recsB='R_2x2', maxA=1, maxB=3)
        ec.run_family(run, 'C04-update', 'Q_C05join', 'R_q4', recsB='R_q4', maxA=2, maxB=2)
    else:
        ec.run_family(run, 'C04-select', 'Q_C04sel', 'R_w2', recsB='R_w2', maxA=2, maxB=2)
        ec.run_family(run, 'C04-select-3', 'Q_C04selQ', 'R_q4', recsB='R_q4', maxA=3, maxB=3)
        ec.run_family(run, 'C04-pairs', 'Q_C04pairs', 'R_w2', recsB='R_w2N', maxA=2, maxB=2, hdrmodes=(False, True))
        ec.run_family(run, 'C04-order-distinct-top', 'Q_C02joinok', 'R_2x2', recsB='R_2x2', maxA=2, maxB=3)
        ec.run_family(run, 'C04-update', 'Q_C05join', 'R_w2N', recsB='R_w2', maxA=2, maxB=3)
    ec.run_family(run, 'C04-none-keys', 'Q_C04none', 'R_2x2N', recsB='R_2x2N', maxA=1 if quick else 2, maxB=2)
    ec.run_family(run, 'C04-three-keys', 'Q_C04k3', 'R_w3', recsB='R_w3', maxA=1 if quick else 2, maxB=2)
    if not quick:
        ec.run_family(run, 'C04-cross-product', 'Q_MIX', 'R_2x2', recsB='R_w2', maxA=3, maxB=4, hdrmodes=(False, True), simulate=8000)
    # rbql-js/rbql.js is an anchor of this property too
    ec.run_family_js(run, 'C04-js-join', 'Q_C04selQ', 'R_q4', recsB='R_q4', maxA=2, maxB=2)
    ec.run_family_js(run, 'C04-js-join-pairs', 'Q_C04pairs', 'R_2x2', recsB='R_2x2', maxA=1, maxB=2, hdrmodes=(False, True))
    # random cross product of every query kind x join x fault plan over ragged tables (tlc -simulate, seeded by VERIF_SEED)
    ec.run_family(run, 'C04-random-cross-product', 'Q_MIX', 'R_w2', recsB='R_w2', maxA=3, maxB=2, hdrmodes=(False, True), breakpoints=(0, 0, 0, 1, 2), simulate=1200 if quick else 20000, opts={'sim_next': 'SimNext2'})
    run.exhaustive = True


def replay(path):
    return ec.replay_file('C04', path)
