"""C20 -- the JavaScript stream reader is independent of chunk boundaries.

(A) TLC: JsCsvReader -- producer/consumer machine; every partition (chosen step by step) and every
    producer/consumer interleaving ends with RefRead(Decode(bytes)); valid UTF-8 never rejected.
(B) spec -> code: every emitted (bytes, policy, comment) case delivered to the real rbql-js
    CSVRecordIterator through a hand-pushed Readable under ALL 2^(n-1) partitions, consumer-first and
    producer-first, plus bulk mode; plus files crossing the 64 KiB default chunk through fs.createReadStream.
"""
import json
import os
import re
import tempfile

from .. import core, tlcrun, par, node, messages
from ..text import s, ss
from .c12 import partitions, cut

_rag = re.compile(r'record (\d+) -> (\d+) fields, record (\d+) -> (\d+) fields')
_def = re.compile(r'E\.g\. at line (\d+)')
_err = re.compile(r'at record (\d+), line (\d+)')


def js_result(r):
    """Project a node 'read' response onto the fields of the reader specifications."""
    res = {'recs': [], 'bom': False, 'firstdef': 0, 'ragged': [], 'err': False, 'errnr': 0, 'errnl': 0}
    if r.get('error'):
        msg = r['error']['msg']
        if r['error']['cls'] != 'RbqlIOHandlingError':
            return {'other_error': r['error']['cls'] + ': ' + msg}
        rl = messages.record_and_line(msg)
        if rl is None:
            return {'other_error': 'IOERR ' + msg}       # an IO-handling error that cites no record / line: the decoding error
        res['err'] = True
        res['errnr'], res['errnl'] = rl
        res['firstdef'] = res['errnl']
        return res
    res['recs'] = r['records']
    for w in r.get('warnings') or []:
        k = messages.classify_warning(w)
        if k[0] == 'bom':
            res['bom'] = True
        elif k[0] == 'quoting':
            res['firstdef'] = k[1]
        elif k[0] == 'ragged':
            res['ragged'] = k[1]
    return res


def expected(case):
    ref = case['ref']
    return {'recs': [ss(r) for r in ref['recs']], 'bom': ref['bom'], 'firstdef': ref['firstdef'], 'ragged': list(ref['ragged']), 'err': ref['err'], 'errnr': ref['errnr'], 'errnl': ref['errnl']}


def compare(case, got, sig_base):
    if not case['valid']:
        if 'other_error' in got and got['other_error'].startswith('IOERR'):
            return None
        return dict(sig_base, what='invalid UTF-8 not reported as a decoding IO error', got=got)
    if 'other_error' in got:
        return dict(sig_base, what='valid input rejected', got=got['other_error'])
    exp = expected(case)
    if exp['err']:
        if not got['err'] or got['errnr'] != exp['errnr'] or got['errnl'] != exp['errnl']:
            return dict(sig_base, what='error outcome', got=got, want=exp)
        return None
    if got != exp:
        for k in ('recs', 'bom', 'firstdef', 'ragged', 'err'):
            if got.get(k) != exp[k]:
                return dict(sig_base, what=k, got=got.get(k), want=exp[k])
    return None


def requests_for(case, modes):
    data = list(case['bytes'])
    reqs = []
    meta = []
    base = {'op': 'read', 'encoding': 'utf-8', 'dlm': s([44]) if 'dlm' not in case else s(case['dlm']), 'policy': case['policy'], 'comment': (chr(case['cmt']) if case['cmt'] else None)}
    for lens in partitions(len(data)):
        chunks = cut(data, lens)
        for mode in modes:
            r = dict(base, chunks=chunks, mode='stream')
            if mode == 'consumer_first':
                r['consume_first'] = True
            elif mode == 'producer_first_all':
                r['producer_first_all'] = True
            reqs.append(r)
            meta.append({'lens': str(lens), 'mode': mode})
    reqs.append(dict(base, chunks=[data], mode='bulk'))
    meta.append({'lens': 'bulk', 'mode': 'bulk'})
    return reqs, meta


def reader_cfg(path, alphabet, maxbytes, policies, cmts, emit=True, mut=''):
    consts = {'ByteAlphabet': '{' + ', '.join(map(str, alphabet)) + '}', 'MaxBytes': maxbytes,
              'Policies': '{' + ', '.join('"%s"' % p for p in policies) + '}', 'CommentChars': '{' + ', '.join(map(str, cmts)) + '}',
              'DlmA': 44, 'EmitCases': 'TRUE' if emit else 'FALSE', 'MUT': '"%s"' % mut}
    return tlcrun.write_cfg(path, constants=consts, invariants=['ChunkIndependent', 'NeverRejectsValid', 'Emit'])


def mc_and_replay(run, label, alphabet, maxbytes, policies, cmts, modes):
    d = tlcrun.new_scratch('c20')
    res = tlcrun.run_tlc('JsCsvReader', reader_cfg(os.path.join(d, label + '.cfg'), alphabet, maxbytes, policies, cmts), coverage=(run.tier != 'quick'), timeout=7200, heap='24g')
    run.add_tlc('JsCsvReader:' + label, res)
    want = sum(len(alphabet) ** k for k in range(maxbytes + 1)) * len(policies) * len(cmts)
    if len(res.cases) != want:
        core.machinery_failure('%s: expected %d cases, got %d' % (label, want, len(res.cases)))
    run.sample({'config': label, 'case': res.cases[len(res.cases) // 2]})
    allreqs = []
    owner = []
    for ci, case in enumerate(res.cases):
        reqs, meta = requests_for(case, modes)
        allreqs.extend(reqs)
        owner.extend((ci, m) for m in meta)
    resp = node.run_batch(allreqs, nproc=par.NPROC, timeout=7200)
    per_case = {}
    for (ci, m), r in zip(owner, resp):
        case = res.cases[ci]
        got = js_result(r)
        run.traces += 1
        per_case[ci] = per_case.get(ci, 0) + 1
        sig = compare(case, got, {'impl': 'js', 'policy': case['policy'], 'cmt': case['cmt'], 'mode': m['mode'], 'lens': m['lens'], 'valid_utf8': case['valid']})
        if sig:
            run.violation(sig, {'kind': 'jsreader_case', 'case': case, 'lens': m['lens'], 'mode': m['mode']})
    for ci, n in per_case.items():
        b = res.cases[ci]['bytes']
        run.count([label, res.cases[ci]['policy'], res.cases[ci]['cmt'], b], nontrivial=(len(b) >= 2 and (10 in b or 13 in b or 34 in b or any(x >= 128 for x in b))), n=n)


LONG_TEXTS = ['r1\nr2\nr3\nr4\nr5\nr6\nr7\nr8\n', 'a,b\r\nc,d\r\ne,f\r\ng,h\r\ni,j', '1\n2\n3\n4\n5\n6\n7\n8\n9\n10\n11\n12', '"x,1",y\n"z ""q""",w\nk\n#c\nl,m\n\nn\n',
              'é1\n€2\n\U0001F6003\n4\n5\n6\n']


def queue_schedules(run):
    """Records queue up inside the reader while the consumer is slower than the producer: longer inputs (6-12 records) cut into chunks
    holding several records each, the consumer taking 1 or 2 records per delivered chunk and draining at the end.  The recorded results are
    judged by TLC (BadByteTrace: result = RefRead(Decode(bytes)))."""
    import random
    rnd = random.Random(run.seed + 20)
    reqs, traces = [], []
    for text in LONG_TEXTS:
        data = list(text.encode('utf-8'))
        cuts = [[k] * (len(data) // k) + ([len(data) % k] if len(data) % k else []) for k in (1, 2, 3, 5, 7, 9, 12, 16, len(data))]
        for _ in range(6 if run.tier == 'quick' else 40):
            lens, left = [], len(data)
            while left:
                k = min(left, rnd.randint(1, 14))
                lens.append(k)
                left -= k
            cuts.append(lens)
        for policy in ('quoted', 'quoted_rfc', 'simple'):
            for lens in cuts:
                for take in (1, 2):
                    reqs.append({'op': 'read', 'encoding': 'utf-8', 'dlm': ',', 'policy': policy, 'comment': '#', 'chunks': cut(data, lens), 'mode': 'stream', 'alternate': take})
                    traces.append({'tid': len(traces) + 1, 'bytes': data, 'policy': policy, 'cmt': 35, 'schedule': [lens, take]})
    resp = node.run_batch(reqs, nproc=par.NPROC)
    for t, r in zip(traces, resp):
        got = js_result(r)
        run.traces += 1
        run.count(['queue', t['policy'], str(t['schedule']), len(t['bytes'])], nontrivial=len(t['schedule'][0]) < len(t['bytes']))
        if 'other_error' in got:
            t.update(ioerr=got['other_error'].startswith('IOERR'), other=not got['other_error'].startswith('IOERR'), result={'recs': [], 'bom': False, 'firstdef': 0, 'ragged': [], 'err': False, 'errnr': 0, 'errnl': 0}, msg=got['other_error'])
        else:
            got = dict(got)
            got['recs'] = [[list(map(ord, f)) for f in rec] for rec in got['recs']]
            t.update(ioerr=False, other=False, result=got, msg='')
    d = tlcrun.new_scratch('c20q')
    path = os.path.join(d, 'traces.ndjson')
    with open(path, 'w') as f:
        for t in traces:
            f.write(json.dumps({k: t[k] for k in ('tid', 'bytes', 'policy', 'cmt', 'ioerr', 'other', 'result')}) + '\n')
    c2 = {'Alphabet': '{}', 'MaxLen': 0, 'Policies': '{}', 'CommentChars': '{}', 'Enc': '"utf-8"', 'DlmA': 44, 'EmitCases': 'FALSE', 'MUT': '""'}
    tcfg = tlcrun.write_cfg(os.path.join(d, 'trace.cfg'), constants=c2, init='TInit', next_='TNext', invariants=['Judge'])
    tres = tlcrun.run_tlc('BadByteTrace', tcfg, workers=1, env={'TRACE_FILE': path}, timeout=3600)
    run.add_tlc('BadByteTrace:queued-records', tres)
    if not any(c.get('consumed') == len(traces) for c in tres.cases):
        core.machinery_failure('queued-records trace batch not consumed')
    bytid = {t['tid']: t for t in traces}
    for c in tres.cases:
        if 'reject' in c:
            t = bytid[c['reject']]
            run.violation({'impl': 'js', 'what': 'slow consumer: result rejected by BadByteTrace (differs from RefRead)', 'policy': t['policy'], 'nbytes': len(t['bytes']), 'msg': t['msg'][:80],
                           'got_nrecs': len(t['result']['recs'])}, {'kind': 'queue_case', 'bytes': t['bytes'], 'policy': t['policy'], 'schedule': t['schedule']})
    run.sample({'queued_records_trace': {'text': LONG_TEXTS[0], 'schedule': traces[3]['schedule'], 'policy': traces[3]['policy']}})


def big_files(run):
    """Files larger than the 64 KiB default chunk of fs.createReadStream with a multi-byte character, a CRLF and a quoted
    multi-line field straddling byte 65536: stream mode must equal bulk mode (whose meaning TLC fixes on the small cases)."""
    d = tempfile.mkdtemp(prefix='rbqlverif_big_')
    try:
        reqs = []
        names = []
        row = 'abcdefgh,12345678\n'
        n = 65536 // len(row)
        prefix = row * n
        pad = 65536 - len(prefix.encode())
        for name, tail, policy in [('multibyte', 'x' * (pad - 1) + 'é,z\r\nlast,line\n', 'quoted'),
                                   ('multibyte3', 'x' * (pad - 2) + '€,z\nlast,line', 'quoted'),
                                   ('multibyte4', 'x' * (pad - 1) + '\U0001F600,z\nlast,line\n', 'simple'),
                                   ('crlf', 'x' * (pad - 1) + '\r\nq,z\r\n', 'quoted'),
                                   ('rfc_multiline', 'x' * (pad - 4) + ',"a\nb",z\n"c\r\nd",e\n', 'quoted_rfc')]:
            data = (prefix + tail).encode('utf-8')
            path = os.path.join(d, name + '.csv')
            with open(path, 'wb') as f:
                f.write(data)
            for mode in ('file_stream', 'bulk'):
                reqs.append({'op': 'read_file', 'path': path, 'encoding': 'utf-8', 'dlm': ',', 'policy': policy, 'mode': mode})
                names.append((name, mode))
        resp = node.run_batch(reqs, nproc=1)
        byname = {}
        for (name, mode), r in zip(names, resp):
            byname.setdefault(name, {})[mode] = js_result(r)
            run.traces += 1
        for name, m in byname.items():
            run.count(['bigfile', name], nontrivial=True)
            if m['file_stream'] != m['bulk'] or 'other_error' in m['bulk']:
                g = m['file_stream']
                run.violation({'impl': 'js', 'what': '64 KiB boundary: stream result differs from bulk', 'file': name,
                               'got': g if 'other_error' in g else {'nrecs': len(g['recs']), 'last': g['recs'][-2:]},
                               'want': {'nrecs': len(m['bulk'].get('recs', [])), 'last': m['bulk'].get('recs', [])[-2:]}}, {'kind': 'bigfile', 'file': name})
    finally:
        import shutil
        shutil.rmtree(d, ignore_errors=True)


def check(run):
    quick = run.tier == 'quick'
    run.rule = ('case = (byte string, policy, comment prefix) with every byte string up to the bound over {a, quote, comma, LF, CR, #} and over {a, LF, CR, pieces of 2-/3-/4-byte UTF-8 sequences, 0xFF}; '
                'each delivered to the real rbql-js CSVRecordIterator under all 2^(n-1) partitions x {consumer first, producer first, whole input before the first get_record} + bulk mode; '
                'plus 5 longer inputs (6-12 records) x fixed and random cuts x a consumer taking 1 or 2 records per delivered chunk, judged by TLC (BadByteTrace); plus 5 files of 64 KiB + with a multi-byte character / CRLF / quoted multi-line field straddling byte 65536 through fs.createReadStream; evaluations = reader runs; '
                'non-trivial = >= 2 bytes with a line break, quote or non-ASCII byte')
    run.assumptions = ['single-character delimiter and comment prefix', 'the event loop is driven deterministically by a hand-pushed Readable (real fs streams only for the 64 KiB files)']
    d = tlcrun.new_scratch('c20mut')
    mres = tlcrun.run_tlc('JsCsvReader', reader_cfg(os.path.join(d, 'mut.cfg'), [97, 10, 195, 169], 3, ['quoted'], [0], emit=False, mut='nonstreaming_decoder'), expect_violation=True)
    if mres.violation is None:
        core.machinery_failure('JsCsvReader mutant nonstreaming_decoder not rejected')
    run.notes.setdefault('spec_mutants_rejected', []).append('JsCsvReader/nonstreaming_decoder -> ' + mres.violation)
    modes = ['consumer_first', 'producer_first', 'producer_first_all']
    mc_and_replay(run, 'ascii6', [97, 34, 44, 10, 13, 35], 4 if quick else 6, ['simple', 'quoted', 'quoted_rfc'], [0, 35], modes if not quick else modes[:2])
    mc_and_replay(run, 'multibyte', [97, 10, 13, 195, 169, 226, 130, 172, 240, 159, 152, 128, 255], 3 if quick else 4, ['quoted'], [0], modes)
    mc_and_replay(run, 'bom', [97, 10, 239, 187, 191, 44], 4 if quick else 5, ['quoted', 'quoted_rfc'], [0], modes[:2])
    queue_schedules(run)
    big_files(run)
    run.exhaustive = True


def replay(path):
    with open(path) as f:
        rep = json.load(f)
    run = core.Run('C20', 'quick', 0)
    c = rep['case']
    if c['kind'] == 'jsreader_case':
        reqs, meta = requests_for(c['case'], ['consumer_first', 'producer_first', 'producer_first_all'])
        resp = node.run_batch(reqs, nproc=2)
        for m, r in zip(meta, resp):
            sig = compare(c['case'], js_result(r), {'impl': 'js', 'mode': m['mode'], 'lens': m['lens']})
            run.traces += 1
            if sig:
                run.violation(sig, c)
    elif c['kind'] == 'queue_case':
        queue_schedules(run)
    else:
        big_files(run)
    return run.finish()
