"""C19 -- the JavaScript engine has the same relational semantics as the reference (RbqlEngine's Ref)."""
from .. import enginecheck as ec


def check(run):
    quick = run.tier == 'quick'
    run.rule = ('case = TLC-emitted RbqlEngine case (the families of C01-C05, C07 restricted to the vocabulary that means the same in both languages, rectangular string tables) rendered into '
                'JavaScript syntax (===, &&, null, Array(n).fill) and run through rbql-js query_table in a node batch driver; rows, header, error class / record number compared with Ref; '
                'caller arrays snapshotted (JSON) and compared, output rows checked for identity with input rows; non-trivial = >= 2 input records and (>= 1 output row or an error)')
    run.assumptions = ['tables without None cells where string concatenation is used (null + "x" is "nullx" in JS: not a common-meaning expression)',
                       'documented limitation not claimed: rbql-js keeps one module-global query context, concurrent JS queries interfere']
    ec.run_family_js(run, 'js-select', 'Q_C01a', 'R_2x2', maxA=2 if quick else 3)
    ec.run_family_js(run, 'js-select-empty-strings', 'Q_C01a', 'R_2x2e', maxA=2)
    ec.run_family_js(run, 'js-except', 'Q_C01exc', 'R_w3N', maxA=1 if quick else 2, hdrmodes=(False, True))
    ec.run_family_js(run, 'js-order-distinct-top', 'Q_C02ok', 'R_2x2', maxA=2 if quick else 3)
    ec.run_family_js(run, 'js-join', 'Q_C04selQ' if quick else 'Q_C04selJS', 'R_q4' if quick else 'R_w2', recsB='R_q4' if quick else 'R_w2', maxA=2, maxB=2)
    ec.run_family_js(run, 'js-join-order', 'Q_C02joinok', 'R_2x2', recsB='R_2x2', maxA=1 if quick else 2, maxB=3)
    ec.run_family_js(run, 'js-join-pairs', 'Q_C04pairs', 'R_2x2', recsB='R_2x2', maxA=2, maxB=2, hdrmodes=(False, True))
    ec.run_family_js(run, 'js-update', 'Q_C05', 'R_2x2', maxA=2, hdrmodes=(False, True))
    ec.run_family_js(run, 'js-update-join', 'Q_C05join', 'R_2x2', recsB='R_2x2', maxA=2, maxB=2)
    ec.run_family_js(run, 'js-header', 'Q_C07', 'R_2x2', maxA=1, hdrmodes=(False, True), opts={'nontrivial_rule': 'header'})
    ec.run_family_js(run, 'js-header-join', 'Q_C07join', 'R_2x2', recsB='R_2x2', maxA=1, maxB=1, hdrmodes=(False, True))
    ec.run_family_js(run, 'js-aggregates', 'Q_C03js', 'R_num', maxA=2 if quick else 3)
    ec.run_family_js(run, 'js-constant-column-falsy-first-value', 'Q_C03const', 'R_keyse', maxA=3)
    ec.run_family_js(run, 'js-aggregates-zero-negative', 'Q_C03med', 'R_numz', maxA=3)
    ec.run_family_js(run, 'js-aggregates-mixed-width-numbers', 'Q_C03med', 'R_numw', maxA=3)
    ec.run_family_js(run, 'js-group-key-order', 'Q_C03key', 'R_keysp', maxA=3)
    ec.run_family_js(run, 'js-numeric-group-keys', 'Q_C03key', 'R_numk', maxA=3)
    ec.run_family_js(run, 'js-errors', 'Q_C14js', 'R_poison', maxA=2 if quick else 3)
    ec.run_family_js(run, 'js-errors-join', 'Q_C14join', 'R_poison', recsB='R_2x2', maxA=2, maxB=2)
    run.exhaustive = True


def replay(path):
    import json
    from .. import core, engine, node
    with open(path) as f:
        rep = json.load(f)
    run = core.Run('C19', 'quick', 0)
    case = rep['case']['case']
    qtext = rep['signature'].get('query') or engine.render_query(case, engine.Plain(), 'js')
    r = node.run_batch([engine.js_request(case, qtext)])[0]
    obs = engine.js_observation(r)
    print('query:', qtext, '->', json.dumps(r)[:600])
    for sig in engine.judge(case, obs, qtext):
        run.violation(dict(sig, impl='js'), rep['case'])
    if obs['src_changed'] or obs['alias']:
        run.violation({'impl': 'js', 'what': 'caller arrays modified / aliased'}, rep['case'])
    run.traces += 1
    return run.finish()
