"""C01 -- SELECT/WHERE yields exactly the projected matching records, in input order."""
from .. import enginecheck as ec


def check(run):
    quick = run.tier == 'quick'
    run.rule = ('case = (query descriptor, table A[, table B]) enumerated by TLC from MC_Engine families; each terminal case rendered to RBQL text (varied spelling) and run through '
                'rbql.query of the tree behind recording iterator/writer; rows/header/error compared with TLC\'s Ref; events judged by TLC monitors; '
                'non-trivial = >= 2 input records and (>= 1 output row or an error); distinct by case content hash')
    run.assumptions = ['expression vocabulary of RbqlValues (fields, literals, concatenation, NR/NF, comparisons, star forms, EXCEPT, UNNEST)']
    ec.spec_mutant(run, 'Q_C04pairs', 'R_2x2', 'unnest_reset_per_record', recsB='R_2x2', maxA=1, maxB=2)
    ec.run_family(run, 'C01a-items<=2', 'Q_C01a', 'R_w2N' if not quick else 'R_q4', maxA=2 if quick else 3)
    if quick:
        ec.run_family(run, 'C01a-none-cells', 'Q_C01a', 'R_w2N', maxA=1)
    ec.run_family(run, 'C01-wide-records', 'Q_C01wide', 'R_wide', maxA=2 if quick else 3, hdrmodes=(False, True))
    ec.run_family(run, 'C01-wide-except', 'Q_C01widex', 'R_wide', maxA=2, hdrmodes=(False, True))
    ec.run_family(run, 'C01-except', 'Q_C01exc', 'R_w3N', maxA=2 if quick else 3, hdrmodes=(False, True))
    ec.run_family(run, 'C01-join', 'Q_C01join', 'R_w2' if not quick else 'R_q4', recsB='R_w2' if not quick else 'R_q4', maxA=2, maxB=2 if quick else 3)
    ec.run_family(run, 'C01-join-pairs', 'Q_C04pairs', 'R_w2N' if not quick else 'R_w2', recsB='R_w2', maxA=2, maxB=2)
    if not quick:
        # the unrestricted cross product (item lists of <= 3, joins, order, distinct, top together) over bigger tables: sampled
        ec.run_family(run, 'C01-cross-product', 'Q_MIX', 'R_2x2', recsB='R_w2', maxA=4, maxB=3, hdrmodes=(False, True), simulate=8000)
    # rbql-js/rbql.js is an anchor of this property too: the main families through the JavaScript engine (C19 runs them all; here the core ones)
    ec.run_family_js(run, 'C01-js-select', 'Q_C01a', 'R_2x2', maxA=2)
    ec.run_family_js(run, 'C01-js-empty-strings', 'Q_C01a', 'R_2x2e', maxA=2)
    ec.run_family_js(run, 'C01-js-except', 'Q_C01exc', 'R_w3N', maxA=1, hdrmodes=(False, True))
    # random cross product of every query kind x join x fault plan over ragged tables (tlc -simulate, seeded by VERIF_SEED)
    ec.run_family(run, 'C01-random-cross-product', 'Q_MIX', 'R_w2', recsB='R_w2', maxA=3, maxB=2, hdrmodes=(False, True), breakpoints=(0, 0, 0, 1, 2), simulate=1200 if quick else 20000, opts={'sim_next': 'SimNext2'})
    run.exhaustive = True


def replay(path):
    return ec.replay_file('C01', path)
