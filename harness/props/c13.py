"""C13 -- same query, same data => same result through every front-end and backend.

TLC computes Ref and its text rendering (Stringify) for type-agnostic queries over rectangular string tables;
every case is run through query_table, query (recording iterator/writer), query_csv (files), `python -m rbql`
from the tree (file->file and stdin->stdout, out-format input / csv / tsv), query_dataframe (pandas) and the
sqlite iterator + query_sqlite_to_csv; every result is compared with the TLA+ value; command-line runs are
additionally judged by the CliOk monitor of Frontends.tla (FrontendTrace).
"""
import json
import os
import shutil
import sqlite3
import subprocess
import tempfile

from .. import core, tlcrun, par, impl, engine, frontends, messages
from .. import enginecheck as ec
from ..text import s

ERRNAME = {'runtime': 'query execution', 'parsing': 'query parsing', 'io': 'IO handling'}


def csv_text(table, header):
    lines = []
    if header is not None:
        lines.append(','.join(header))
    for rec in table:
        lines.append(','.join(rec))
    return ''.join(l + '\n' for l in lines)


def parse_text(text, dlm=','):
    if text == '':
        return []
    lines = text.split('\n')
    if lines and lines[-1] == '':
        lines.pop()
    return [l.split(dlm) for l in lines]


def expected_text_rows(case):
    exp = case['expect']
    rows = [[s(c) for c in r] for r in exp['outs']]
    if exp['hashdr']:
        rows = [list(exp['hdr'])] + rows
    return rows


def cli(args, stdin=None):
    env = dict(os.environ)
    env['PYTHONPATH'] = os.path.join(impl.REPO, 'rbql-py')
    env['PYTHONDONTWRITEBYTECODE'] = '1'
    env['PYTHONWARNINGS'] = 'ignore'
    p = subprocess.run(['/venv/bin/python', '-m', 'rbql'] + args, input=stdin, stdout=subprocess.PIPE, stderr=subprocess.PIPE, env=env, cwd='/', timeout=120)
    return p.returncode, p.stdout.decode('utf-8', 'replace'), p.stderr.decode('utf-8', 'replace')


def stderr_kinds(err):
    kinds = set()
    for line in err.split('\n'):
        if not line.strip():
            continue
        if line.startswith('Warning:'):
            kinds.add('warning')
        elif line.startswith('Error ['):
            kinds.add('error')
        else:
            kinds.add('other')
    return sorted(kinds)


def _run_frontends(items):
    mods = impl.load()
    rbql, eng, rcsv, cu = mods
    from rbql import rbql_pandas, rbql_sqlite
    import pandas as pd
    out = []
    for tid, case, do_cli in items:
        sigs = []
        clis = []
        nruns = 0
        qtext = engine.render_query(case, engine.Spelling(ec.case_key(case)), 'py')
        exp = case['expect']
        want_err = exp['err'][0]['cls'] if exp['err'] else None
        if (exp.get('alt') or {}).get('has'):
            out.append((tid, sigs, clis, nruns))     # two acceptable outcomes (RefAlt): compared by the engine checks, not per front-end
            continue
        A = engine.table_py(case['A'])
        B = engine.table_py(case['B'])
        joined = case['q']['join'] != 'none'
        hdrA = list(case['hdrA']) if case['hasHdr'] else None
        hdrB = list(case['hdrB']) if case['hasHdr'] else None
        base = {'impl': 'py', 'query': qtext}

        def outcome_mismatch(front, got_err_cls):
            if (got_err_cls or None) != (want_err or None):
                sigs.append(dict(base, frontend=front, what='outcome', got=got_err_cls, want=want_err))
                return True
            return False

        # 1/2. lists: query_table and query with recorders
        obs = engine.run_case_py(mods, case, qtext)
        nruns += 1
        for sig in engine.judge(case, obs, qtext):
            sigs.append(dict(sig, frontend='query'))
        res = []
        names = []
        err = None
        try:
            rbql.query_table(qtext, [list(r) for r in A], res, [], [list(r) for r in B] if joined else None, hdrA, hdrB if joined else None, names)
        except Exception as e:  # noqa
            err = engine.project_error(eng, e)['cls']
        nruns += 1
        if not outcome_mismatch('query_table', err) and err is None:
            if not engine.rows_match([[engine.project_value(c) for c in r] for r in res], exp['out']):
                sigs.append(dict(base, frontend='query_table', what='result rows', got=res, want=exp['out']))
            if (names or None) != (list(exp['hdr']) if exp['hashdr'] and exp['hdr'] else None):
                sigs.append(dict(base, frontend='query_table', what='header', got=names, want=exp['hdr']))
        if not exp['textonly'] and not want_err:
            out.append((tid, sigs, clis, nruns))
            continue
        want_rows = expected_text_rows(case) if not want_err else None
        d = tempfile.mkdtemp(prefix='rbqlverif_c13_')
        try:
            inp = os.path.join(d, 'in.csv')
            jn = os.path.join(d, 'B')
            outp = os.path.join(d, 'out.csv')
            with open(inp, 'w') as f:
                f.write(csv_text(A, hdrA))
            if joined:
                for name in ('B', 'b'):     # the renderer spells the join table id either way
                    with open(os.path.join(d, name), 'w') as f:
                        f.write(csv_text(B, hdrB))
            # the join table id in the query text is B / b: point it at the file in the input's directory
            # 3. query_csv
            err = None
            warnings = []
            try:
                rcsv.query_csv(qtext, inp, ',', 'quoted', outp, ',', 'quoted', 'utf-8', warnings, bool(case['hasHdr']))
            except Exception as e:  # noqa
                err = engine.project_error(eng, e)['cls']
            nruns += 1
            if joined and os.path.exists(os.path.join(d, 'b')) is False and err == 'io':
                pass
            if not outcome_mismatch('query_csv', err) and err is None:
                got = parse_text(open(outp).read())
                if got != want_rows:
                    sigs.append(dict(base, frontend='query_csv', what='result rows', got=got, want=want_rows))
                if messages.has_kind(warnings, 'none') != bool(exp['nonewarn']):
                    sigs.append(dict(base, frontend='query_csv', what='None warning', got=warnings, want=exp['nonewarn']))
            # 4. command line
            if do_cli:
                hdr_flag = ['--with-headers'] if case['hasHdr'] else []
                for mode, fmt in (('file', 'input'), ('pipe', 'input'), ('pipe', 'tsv'), ('file', 'csv'), ('file', 'tsv')):
                    o2 = os.path.join(d, 'cli_out.csv')
                    args = ['--query', qtext, '--delim', ',', '--policy', 'quoted', '--out-format', fmt] + hdr_flag
                    if mode == 'file':
                        rc, so, se = cli(args + ['--input', inp, '--output', o2])
                        text = open(o2).read() if os.path.exists(o2) else ''
                        if os.path.exists(o2):
                            os.unlink(o2)
                        stdout_clean = (so == '')
                    else:
                        if joined:
                            continue        # with stdin input the join table cannot be found relative to the input file
                        rc, so, se = cli(args, stdin=open(inp, 'rb').read())
                        text = so
                        stdout_clean = True
                    nruns += 1
                    dl = '\t' if fmt == 'tsv' else ','
                    is_table = True
                    if not want_err:
                        is_table = stdout_clean and parse_text(text, dl) == want_rows
                    kinds = stderr_kinds(se)
                    clis.append({'tid': '%d.%s.%s' % (tid, mode, fmt), 'exit': rc, 'stdout_is_table': bool(is_table), 'stderr_kinds': kinds,
                                 'outcome': 'error' if want_err else 'ok', 'q': qtext, 'stderr': se[:300], 'stdout': text[:300]})
                    if want_err and ('Error [%s]' % ERRNAME.get(want_err, want_err)) not in se:
                        sigs.append(dict(base, frontend='cli-' + mode, what='error type on stderr', got=se[:200], want=ERRNAME.get(want_err)))
            # 5. pandas (needs a header: dataframe columns)
            if case['hasHdr'] and A:
                df = pd.DataFrame(A, columns=hdrA)
                jdf = pd.DataFrame(B, columns=hdrB) if joined and B else None
                if not joined or jdf is not None:
                    err = None
                    try:
                        rdf = rbql_pandas.query_dataframe(qtext, df, join_dataframe=jdf)
                    except Exception as e:  # noqa
                        err = engine.project_error(eng, e)['cls']
                    nruns += 1
                    if not outcome_mismatch('pandas', err) and err is None:
                        rows = [[engine.project_value(None if (isinstance(c, float) and c != c) else c) for c in r] for r in rdf.values.tolist()]
                        if not engine.rows_match(rows, exp['out']):
                            sigs.append(dict(base, frontend='pandas', what='result rows', got=rows, want=exp['out']))
                        if exp['hashdr'] and [str(c) for c in rdf.columns] != list(exp['hdr']):
                            sigs.append(dict(base, frontend='pandas', what='header', got=[str(c) for c in rdf.columns], want=exp['hdr']))
            # 5b. pandas with a duplicated column label (columns referenced by position): rows and header as through the lists
            if case['hasHdr'] and A and not joined and len(hdrA) >= 2:
                ptext = engine.render_query(case, engine.Plain(), 'py')
                dup = [hdrA[0]] * len(hdrA)
                ren = dict(zip(hdrA, dup))
                err = None
                try:
                    rdf = rbql_pandas.query_dataframe(ptext, pd.DataFrame(A, columns=dup))
                except Exception as e:  # noqa
                    err = engine.project_error(eng, e)['cls']
                nruns += 1
                if not outcome_mismatch('pandas-duplicate-labels', err) and err is None:
                    rows = [[engine.project_value(None if (isinstance(c, float) and c != c) else c) for c in r] for r in rdf.values.tolist()]
                    if not engine.rows_match(rows, exp['out']):
                        sigs.append(dict(base, frontend='pandas-duplicate-labels', what='result rows', got=rows, want=exp['out'], query=ptext))
                    if exp['hashdr'] and [str(c) for c in rdf.columns] != [ren.get(h, h) for h in exp['hdr']]:
                        sigs.append(dict(base, frontend='pandas-duplicate-labels', what='header', got=[str(c) for c in rdf.columns], want=[ren.get(h, h) for h in exp['hdr']], query=ptext))
            # 6. sqlite (column names always exist)
            if case['hasHdr'] and A:
                db = os.path.join(d, 't.db')
                con = sqlite3.connect(db)
                con.execute('CREATE TABLE T1 (%s)' % ', '.join('%s TEXT' % n for n in hdrA))
                con.executemany('INSERT INTO T1 VALUES (%s)' % ', '.join('?' for _ in hdrA), A)
                if joined and B:
                    con.execute('CREATE TABLE B (%s)' % ', '.join('%s TEXT' % n for n in hdrB))
                    con.executemany('INSERT INTO B VALUES (%s)' % ', '.join('?' for _ in hdrB), B)
                con.commit()
                if not joined or B:
                    err = None
                    o3 = os.path.join(d, 'sq_out.csv')
                    try:
                        rbql_sqlite.query_sqlite_to_csv(qtext, con, 'T1', o3, ',', 'quoted', 'utf-8', [])
                    except Exception as e:  # noqa
                        err = engine.project_error(eng, e)['cls']
                    nruns += 1
                    if not outcome_mismatch('sqlite', err) and err is None:
                        got = parse_text(open(o3).read())
                        if got != want_rows:
                            sigs.append(dict(base, frontend='sqlite', what='result rows', got=got, want=want_rows))
                con.close()
        finally:
            shutil.rmtree(d, ignore_errors=True)
        out.append((tid, sigs, clis, nruns))
    return out


def cli_environment_faults(run):
    """Failures that come from the environment rather than from the query: a missing input file, an output path that is a directory or lies in
    a missing directory, a missing join table, an input that is not valid UTF-8.  Every one is outcome "error" for the CliOk monitor
    (non-zero exit status, an `Error [...]` line on stderr)."""
    d = tempfile.mkdtemp(prefix='rbqlverif_c13f_')
    clis = []
    try:
        inp = os.path.join(d, 'in.csv')
        with open(inp, 'w') as f:
            f.write('a,1\nb,2\n')
        bad = os.path.join(d, 'bad.csv')
        with open(bad, 'wb') as f:
            f.write(b'a,\xff\xfe\n')
        os.mkdir(os.path.join(d, 'odir'))
        base = ['--delim', ',', '--policy', 'quoted']
        scenarios = [('missing-input', ['--query', 'select a1', '--input', os.path.join(d, 'nosuch.csv')]),
                     ('output-is-directory', ['--query', 'select a1', '--input', inp, '--output', os.path.join(d, 'odir')]),
                     ('output-in-missing-directory', ['--query', 'select a1', '--input', inp, '--output', os.path.join(d, 'nodir', 'o.csv')]),
                     ('missing-join-table', ['--query', 'select a1, b1 join nosuch on a1 == b1', '--input', inp]),
                     ('undecodable-input', ['--query', 'select a1', '--input', bad, '--encoding', 'utf-8']),
                     ('control-ok', ['--query', 'select a1', '--input', inp])]
        for name, args in scenarios:
            rc, so, se = cli(base + args)
            run.traces += 1
            run.count(['clifault', name], nontrivial=True)
            ok = name == 'control-ok'
            clis.append({'tid': name, 'exit': rc, 'stdout_is_table': (so == 'a\nb\n') if ok else True, 'stderr_kinds': stderr_kinds(se), 'outcome': 'ok' if ok else 'error', 'stderr': se[:200]})
    finally:
        shutil.rmtree(d, ignore_errors=True)
    rej = frontends.validate(run, 'cli', [{k: c[k] for k in ('tid', 'exit', 'stdout_is_table', 'stderr_kinds', 'outcome')} for c in clis], 'environment-faults')
    for c in clis:
        if c['tid'] in rej:
            run.violation({'impl': 'py', 'frontend': 'cli', 'what': 'environment fault: run rejected by the CliOk monitor', 'scenario': c['tid'], 'exit': c['exit'], 'stderr': c['stderr'][:160]},
                          {'kind': 'cli_fault', 'scenario': c['tid']})
    run.sample({'cli_environment_fault': clis[0]})


def _shared_names(items):
    """Join cases with a header, both tables given the SAME column names (x1, x2): a.x1 and b.x1 must stay distinct columns in
    query_table and in the pandas front-end.  The expectation is TLC's for the case; only the names of B's columns differ."""
    mods = impl.load()
    rbql, eng, rcsv, cu = mods
    from rbql import rbql_pandas
    import pandas as pd
    out = []
    for tid, case in items:
        sigs = []
        nruns = 0
        c2 = dict(case, hdrB=list(case['hdrA'])[:len(case['hdrB'])])
        ren = dict(zip(case['hdrB'], c2['hdrB']))
        qtext = engine.render_query(c2, engine.Spelling(ec.case_key(case) + 'shared'), 'py')
        exp = case['expect']
        want_err = exp['err'][0]['cls'] if exp['err'] else None
        if (exp.get('alt') or {}).get('has'):
            out.append((tid, sigs, nruns))
            continue
        want_hdr = [ren.get(h, h) for h in exp['hdr']] if exp['hashdr'] and exp['hdr'] else None
        A = engine.table_py(case['A'])
        B = engine.table_py(case['B'])
        base = {'impl': 'py', 'query': qtext, 'shared_column_names': True}
        res, names, err = [], [], None
        try:
            rbql.query_table(qtext, [list(r) for r in A], res, [], [list(r) for r in B], list(c2['hdrA']), list(c2['hdrB']), names)
        except Exception as e:  # noqa
            err = engine.project_error(eng, e)['cls']
        nruns += 1
        if (err or None) != (want_err or None):
            sigs.append(dict(base, frontend='query_table', what='outcome', got=err, want=want_err))
        elif err is None:
            if not engine.rows_match([[engine.project_value(c) for c in r] for r in res], exp['out']):
                sigs.append(dict(base, frontend='query_table', what='result rows', got=res, want=exp['out']))
            if (names or None) != want_hdr:
                sigs.append(dict(base, frontend='query_table', what='header', got=names, want=want_hdr))
        if A and B:
            err = None
            try:
                rdf = rbql_pandas.query_dataframe(qtext, pd.DataFrame(A, columns=c2['hdrA']), join_dataframe=pd.DataFrame(B, columns=c2['hdrB']))
            except Exception as e:  # noqa
                err = engine.project_error(eng, e)['cls']
            nruns += 1
            if (err or None) != (want_err or None):
                sigs.append(dict(base, frontend='pandas', what='outcome', got=err, want=want_err))
            elif err is None:
                rows = [[engine.project_value(None if (isinstance(c, float) and c != c) else c) for c in r] for r in rdf.values.tolist()]
                if not engine.rows_match(rows, exp['out']):
                    sigs.append(dict(base, frontend='pandas', what='result rows', got=rows, want=exp['out']))
                if want_hdr and [str(c) for c in rdf.columns] != want_hdr:
                    sigs.append(dict(base, frontend='pandas', what='header', got=[str(c) for c in rdf.columns], want=want_hdr))
        out.append((tid, sigs, nruns))
    return out


def _pipeline_chunk(cases):
    mods = impl.load()
    rbql, eng, rcsv, cu = mods
    from ..text import s as S
    out = []
    d = tempfile.mkdtemp(prefix='rbqlverif_c13p_')
    try:
        inp = os.path.join(d, 'in.csv')
        outp = os.path.join(d, 'out.csv')
        for case in cases:
            sigs = []
            with open(inp, 'wb') as f:
                f.write(S(case['text']).encode(case['enc']))
            if os.path.exists(outp):
                os.unlink(outp)
            query = 'select *' if case['qk'] == 1 else 'select NR, a1'
            base = {'impl': 'py', 'frontend': 'query_csv', 'encoding': case['enc'], 'in_policy': case['ipol'], 'out_policy': case['opol'], 'query': query, 'header': case['header']}
            warnings = []
            err = None
            try:
                rcsv.query_csv(query, inp, S(case['indlm']), case['ipol'], outp, ';', case['opol'], case['enc'], warnings, bool(case['header']))
            except Exception as e:  # noqa
                err = (engine.project_error(eng, e)['cls'], str(e))
            if case['rderr']:
                rl = messages.record_and_line(err[1]) if err else None
                if err is None or err[0] != 'io' or rl != (case['errnr'], case['errnl']):
                    sigs.append(dict(base, what='malformed input: IO-handling error citing record and line', got=err, want=[case['errnr'], case['errnl']]))
            elif case['hdrerr']:
                nr = messages.near('record', err[1]) if err else None
                if err is None or err[0] != 'runtime' or nr != case['hdrerr']:
                    sigs.append(dict(base, what='record wider / narrower than the header under select *: runtime error at that record', got=err, want=case['hdrerr']))
            elif err is not None:
                sigs.append(dict(base, what='unexpected error', got=err[1][:160]))
            else:
                got = open(outp, 'rb').read().decode(case['enc'])
                if got != S(case['out']):
                    sigs.append(dict(base, what='output text', got=got, want=S(case['out'])))
                ks = messages.kinds(warnings)
                gb = any(k[0] == 'bom' for k in ks)
                gq = [k[1] for k in ks if k[0] == 'quoting']
                gr = [k[1] for k in ks if k[0] == 'ragged']
                gs = any(k[0] == 'separator' for k in ks)
                if gb != case['bom']:
                    sigs.append(dict(base, what='BOM warning', got=gb, want=case['bom']))
                if (gq[0] if gq else 0) != case['firstdef']:
                    sigs.append(dict(base, what='quoting warning', got=gq, want=case['firstdef']))
                if (gr[0] if gr else []) != list(case['ragged']):
                    sigs.append(dict(base, what='field-count warning', got=gr, want=case['ragged']))
                if gs != case['wdelim']:
                    sigs.append(dict(base, what='separator warning', got=gs, want=case['wdelim']))
            out.append(sigs)
    finally:
        shutil.rmtree(d, ignore_errors=True)
    return out


def pipeline(run, label, alphabet, maxlen, header, dlm=44, inpolicies=('simple', 'quoted', 'quoted_rfc'), queries=(1, 2), enc='utf-8'):
    """query_csv at the level of text: Pipeline.tla (RefRead ; query ; WriteTable) enumerated by TLC, every case through the real query_csv with
    different input and output dialects (',' in, ';' out)."""
    d = tlcrun.new_scratch('c13p')
    consts = {'DlmA': dlm, 'DlmB': 0, 'EmitCases': 'TRUE', 'Recs': '{}', 'MaxRecs': 0, 'WPolicies': '{}', 'LineSeps': '{}',
              'PAlphabet': '{' + ', '.join(map(str, alphabet)) + '}', 'PMaxLen': maxlen, 'InPolicies': '{' + ', '.join('"%s"' % x for x in inpolicies) + '}',
              'OutPolicies': '{"simple", "quoted", "quoted_rfc"}', 'OutDlm': 59, 'WithHeader': 'TRUE' if header else 'FALSE', 'PEnc': '"%s"' % enc, 'PQueries': '{' + ', '.join(map(str, queries)) + '}'}
    cfg = tlcrun.write_cfg(os.path.join(d, label + '.cfg'), constants=consts, init='PInit', next_='PNext', invariants=['ReReadable', 'PEmit'])
    res = tlcrun.run_tlc('Pipeline', cfg, timeout=7200, heap='24g')
    run.add_tlc('Pipeline:' + label, res)
    want = sum(len(alphabet) ** k for k in range(maxlen + 1)) * 3 * len(inpolicies) * len(queries)
    if len(res.cases) != want:
        core.machinery_failure('%s: expected %d pipeline cases, got %d' % (label, want, len(res.cases)))
    outs = par.pmap(_pipeline_chunk, res.cases, chunk=600)
    for case, sigs in zip(res.cases, outs):
        run.traces += 1
        run.count(['pipeline', case['text'], case['ipol'], case['opol'], case['qk'], case['header']], nontrivial=len(case['text']) >= 2 and (34 in case['text'] or 10 in case['text'] or 59 in case['text']))
        for sig in sigs:
            run.violation(sig, {'kind': 'pipeline_case', 'case': case})
    run.sample({'pipeline_case': res.cases[len(res.cases) // 2]})


def _pipeline_cli_chunk(items):
    from ..text import s as S
    out = []
    d = tempfile.mkdtemp(prefix='rbqlverif_c13pc_')
    try:
        inp = os.path.join(d, 'in.csv')
        outp = os.path.join(d, 'out.csv')
        for case, fmt in items:
            with open(inp, 'wb') as f:
                f.write(S(case['text']).encode('utf-8'))
            if os.path.exists(outp):
                os.unlink(outp)
            query = 'select *' if case['qk'] == 1 else 'select NR, a1'
            rc, so, se = cli(['--query', query, '--delim', S(case['indlm']), '--policy', case['ipol'], '--out-format', fmt, '--input', inp, '--output', outp])
            failing = bool(case['rderr'])
            text = open(outp, 'rb').read().decode('utf-8') if os.path.exists(outp) else ''
            is_table = True if failing else (so == '' and text == S(case['out']))
            out.append({'exit': rc, 'stdout_is_table': bool(is_table), 'stderr_kinds': stderr_kinds(se), 'outcome': 'error' if failing else 'ok',
                        'stderr': se[:200], 'got': text[:120], 'want': S(case['out'])[:120], 'query': query, 'fmt': fmt})
    finally:
        shutil.rmtree(d, ignore_errors=True)
    return out


def pipeline_cli(run, maxlen):
    """The text pipeline through `python -m rbql`: input `;`-separated under the simple / quoted policy, --out-format csv (comma, quoted) and tsv
    (TAB, simple): the output file must hold TLC's text for THAT output dialect; runs judged by the CliOk monitor."""
    alphabet = [97, 34, 44, 59, 10]
    items = []
    for fmt, odlm, opol in (('csv', 44, 'quoted'), ('tsv', 9, 'simple')):
        d = tlcrun.new_scratch('c13pc')
        consts = {'DlmA': 59, 'DlmB': 0, 'EmitCases': 'TRUE', 'Recs': '{}', 'MaxRecs': 0, 'WPolicies': '{}', 'LineSeps': '{}',
                  'PAlphabet': '{' + ', '.join(map(str, alphabet)) + '}', 'PMaxLen': maxlen, 'InPolicies': '{"simple", "quoted"}',
                  'OutPolicies': '{"%s"}' % opol, 'OutDlm': odlm, 'WithHeader': 'FALSE', 'PEnc': '"utf-8"', 'PQueries': '{1, 2}'}
        cfg = tlcrun.write_cfg(os.path.join(d, fmt + '.cfg'), constants=consts, init='PInit', next_='PNext', invariants=['ReReadable', 'PEmit'])
        res = tlcrun.run_tlc('Pipeline', cfg, timeout=3600)
        run.add_tlc('Pipeline:cli-out-format-' + fmt, res)
        items.extend((case, fmt) for case in res.cases)
    outs = par.pmap(_pipeline_cli_chunk, items, chunk=40)
    traces = []
    for k, ((case, fmt), o) in enumerate(zip(items, outs)):
        run.traces += 1
        run.count(['pipeline-cli', case['text'], case['ipol'], case['qk'], fmt], nontrivial=len(case['text']) >= 2)
        traces.append(dict(o, tid='p%d' % k))
    rej = frontends.validate(run, 'cli', [{k: t[k] for k in ('tid', 'exit', 'stdout_is_table', 'stderr_kinds', 'outcome')} for t in traces], 'text-pipeline-cli')
    for t, (case, fmt) in zip(traces, items):
        if t['tid'] in rej:
            run.violation({'impl': 'py', 'frontend': 'cli', 'what': 'text pipeline: command-line run rejected by the CliOk monitor (output file is not the table in the requested output format, or wrong exit / stderr)',
                           'out_format': fmt, 'in_policy': case['ipol'], 'exit': t['exit'], 'got': t['got'], 'want': t['want'], 'stderr': t['stderr'][:120], 'query': t['query']},
                          {'kind': 'pipeline_cli', 'case': case, 'fmt': fmt})
    run.notes['pipeline_cli_runs'] = len(traces)


def run_family(run, label, queries, recsA, maxA, recsB='R_none', maxB=0, cli_every=7):
    d = tlcrun.new_scratch('c13')
    cfg = ec.engine_cfg(os.path.join(d, label + '.cfg'), queries, recsA, recsB, maxA, maxB, (False, True), (0,))
    res = tlcrun.run_tlc('MC_Engine', cfg, timeout=3600)
    run.add_tlc('MC_Engine:' + label, res)
    items = [(tid, case, (tid % cli_every == 0)) for tid, case in enumerate(res.cases, 1)]
    out = par.pmap(_run_frontends, items, chunk=40)
    cases = dict((tid, case) for tid, case, _ in items)
    clis = []
    for tid, sigs, cl, nruns in out:
        run.traces += nruns
        case = cases[tid]
        run.count(['c13', ec.case_key(case)], nontrivial=len(case['A']) >= 2 and (bool(case['expect']['out']) or bool(case['expect']['err'])), n=nruns)
        for sig in sigs:
            run.violation(sig, {'kind': 'frontend_case', 'case': case})
        clis.extend(cl)
    if clis:
        run.sample({'cli_run': {k: clis[len(clis) // 2][k] for k in ('q', 'exit', 'stderr_kinds', 'outcome', 'stdout')}})
        rej = frontends.validate(run, 'cli', [{k: c[k] for k in ('tid', 'exit', 'stdout_is_table', 'stderr_kinds', 'outcome')} for c in clis], label)
        for c in clis:
            if c['tid'] in rej:
                tid = int(c['tid'].split('.')[0])
                run.violation({'impl': 'py', 'frontend': 'cli', 'what': 'command-line run rejected by the CliOk monitor', 'exit': c['exit'], 'outcome': c['outcome'], 'stdout_is_table': c['stdout_is_table'],
                               'stderr': c['stderr'][:160], 'query': c['q']}, {'kind': 'frontend_case', 'case': cases[tid]})
    run.notes.setdefault('cli_runs', 0)
    run.notes['cli_runs'] += len(clis)
    if recsB != 'R_none':
        shared = [(tid, case) for tid, case, _ in items if case['hasHdr']]
        for tid, sigs, nruns in par.pmap(_shared_names, shared, chunk=40):
            run.traces += nruns
            for sig in sigs:
                run.violation(sig, {'kind': 'frontend_case_shared_names', 'case': cases[tid]})
    return len(res.cases)


def check(run):
    quick = run.tier == 'quick'
    run.rule = ('case = (type-agnostic query over string cells: fields, literals, concatenation, comparisons, star forms, ORDER / DISTINCT / TOP, COUNT + GROUP BY, EXCEPT, UPDATE, joins, plus failing queries; rectangular '
                'string table; header yes/no) enumerated by TLC with Ref and its text rendering Stringify; each run through query, query_table, query_csv, python -m rbql (file->file, stdin->stdout; out-format input/csv/tsv; '
                'every k-th case), pandas, sqlite; join cases also with both tables sharing their column names (query_table, pandas); 5 environment faults of the command line (missing input / join table, unwritable output, undecodable input); evaluations = front-end runs; non-trivial = >= 2 input records and (>= 1 output row or an error)')
    run.assumptions = ['cell strings are CSV-inert (letters and digits), so turning output text back into rows needs no dialect logic in the harness', 'pandas and sqlite need column names: header cases only']
    run_family(run, 'frontends', 'Q_C13', 'R_2x2p', 2 if quick else 3, cli_every=9 if quick else 5)
    run_family(run, 'frontends-join', 'Q_C13join', 'R_2x2', 2, recsB='R_2x2', maxB=2, cli_every=40 if quick else 10)
    pipeline(run, 'text-pipeline', [97, 34, 44, 59, 10, 32], 3 if quick else 5, False)
    pipeline(run, 'text-pipeline-header', [97, 34, 44, 59, 10, 32], 3 if quick else 4, True)
    pipeline(run, 'text-pipeline-utf8-bom-nonascii', [97, 44, 10, 233, 65279], 4 if quick else 5, False, inpolicies=('quoted',), queries=(1,))
    pipeline(run, 'text-pipeline-latin1-bom-nonascii', [97, 44, 10, 233, 239, 187, 191], 3 if quick else 4, False, inpolicies=('quoted',), queries=(1,), enc='latin-1')
    pipeline(run, 'text-pipeline-whitespace-monocolumn', [97, 34, 32, 59, 10], 4 if quick else 5, False, dlm=32, inpolicies=('whitespace', 'monocolumn'), queries=(1,))
    pipeline_cli(run, 2 if quick else 3)
    cli_environment_faults(run)
    ctl = core.Run(run.prop, run.tier, run.seed)
    if frontends.validate(ctl, 'cli', [{'tid': 'x', 'exit': 0, 'stdout_is_table': True, 'stderr_kinds': ['error'], 'outcome': 'ok'}], 'control') != {'x'}:
        core.machinery_failure('CliOk control trace accepted')
    run.exhaustive = True


def replay(path):
    with open(path) as f:
        rep = json.load(f)
    run = core.Run('C13', 'quick', 0)
    if rep['case']['kind'] == 'pipeline_case':
        for sig in _pipeline_chunk([rep['case']['case']])[0]:
            run.traces += 1
            run.violation(sig, rep['case'])
        return run.finish()
    if rep['case']['kind'] == 'pipeline_cli':
        for o in _pipeline_cli_chunk([(rep['case']['case'], rep['case']['fmt'])]):
            print(json.dumps(o)[:600])
        pipeline_cli(run, 2)
        return run.finish()
    if rep['case']['kind'] == 'cli_fault':
        cli_environment_faults(run)
        return run.finish()
    if rep['case']['kind'] == 'frontend_case_shared_names':
        for tid, sigs, nruns in _shared_names([(1, rep['case']['case'])]):
            run.traces += nruns
            for sig in sigs:
                run.violation(sig, rep['case'])
        return run.finish()
    for tid, sigs, clis, nruns in _run_frontends([(1, rep['case']['case'], True)]):
        run.traces += nruns
        for sig in sigs:
            run.violation(sig, rep['case'])
        for c in clis:
            print(json.dumps(c)[:400])
    return run.finish()
