"""Front-end conformance (Frontends.tla / FrontendTrace.tla): file handles of query_csv (C15 d, C06),
command-line outcome protocol (C13), sqlite statement guard (C06)."""
import io
import json
import os
import shutil
import tempfile

from . import core, tlcrun, impl


def validate(run, kind, traces, label):
    """Judge recorded front-end executions with the monitors of Frontends.tla (TLC, fold style)."""
    if not traces:
        return set()
    d = tlcrun.new_scratch('fe_' + kind)
    path = os.path.join(d, 'traces.ndjson')
    with open(path, 'w') as f:
        for t in traces:
            f.write(json.dumps(t) + '\n')
    consts = {'Steps': '{}', 'WithJoin': '{}', 'MUT': '""'}
    cfg = tlcrun.write_cfg(os.path.join(d, 'trace.cfg'), constants=consts, init='TInit', next_='TNext', invariants=['Judge'])
    res = tlcrun.run_tlc('FrontendTrace', cfg, workers=1, env={'TRACE_FILE': path, 'KIND': kind}, timeout=1800)
    run.add_tlc('FrontendTrace:%s:%s' % (kind, label), res)
    if not any(c.get('consumed') == len(traces) for c in res.cases):
        core.machinery_failure('front-end trace batch (%s) not consumed' % kind)
    return set(c['reject'] for c in res.cases if 'reject' in c)


class Tracer(object):
    """Replacement for the module attribute `open` of rbql_csv: logs open/close with role and mode, keeps every
    file object alive so that 'closed' is observed before garbage collection could hide a leak."""

    def __init__(self, roles):
        self.roles = roles      # realpath -> role
        self.events = []
        self.files = []

    def __call__(self, path, mode='r', *a, **kw):
        role = self.roles.get(os.path.realpath(path), 'other:' + os.path.basename(str(path)))
        tracer = self
        if 'b' in mode and 'r' in mode:
            raw = io.FileIO(path, 'r')

            class TracedReader(io.BufferedReader):
                def close(self_inner):
                    if not self_inner.closed:
                        tracer.events.append(['close', role])
                    return io.BufferedReader.close(self_inner)
            f = TracedReader(raw)
        elif 'b' in mode and 'w' in mode:
            raw = io.FileIO(path, 'w')

            class TracedWriter(io.BufferedWriter):
                def close(self_inner):
                    if not self_inner.closed:
                        tracer.events.append(['close', role])
                    return io.BufferedWriter.close(self_inner)
            f = TracedWriter(raw)
        else:
            f = io.open(path, mode, *a, **kw)
        self.events.append(['open', role, mode])
        self.files.append(f)
        return f


def nfds():
    return len(os.listdir('/proc/self/fd'))


SCENARIOS = [
    # name, query, input text (bytes) or None (missing input), join text or None, kwargs
    ('ok', 'select a1, a2', b'x,1\ny,2\n', None, {}),
    ('ok_header', 'select a.n, NR', b'n,m\nx,1\ny,2\n', None, {'with_headers': True}),
    ('ok_join', 'select a1, b2 join J.csv on a1 == b1', b'x,1\ny,2\n', b'x,p\nz,q\n', {}),
    ('ok_update', 'update set a2 = "k"', b'x,1\ny,2\n', None, {}),
    ('ok_sorted_distinct', 'select distinct count a1 order by a1', b'x,1\nx,2\n', None, {}),
    ('parse_error', 'select a1 order by a1 select a2', b'x,1\n', None, {}),
    ('parse_error_where', 'select a1 where a1 = 3', b'x,1\n', None, {}),
    ('runtime_error', 'select int(a1)', b'1,1\nx,2\n', None, {}),
    ('runtime_error_first', 'select int(a1)', b'x,2\n', None, {}),
    ('syntax_error', 'select a1 +', b'x,1\n', None, {}),
    ('missing_join_file', 'select a1 join nosuch.csv on a1 == b1', b'x,1\n', None, {}),
    ('bad_utf8_input', 'select a1', b'x,\xff\ny,2\n', None, {}),
    ('bad_utf8_input_late', 'select a1', b'x,1\ny,2\n' * 300 + b'z,\xff\n', None, {}),
    ('bad_utf8_join', 'select a1, b2 join J.csv on a1 == b1', b'x,1\n', b'x,\xff\n', {}),
    ('rfc_quote_error', 'select a1', b'x,"a"b\ny,2\n', None, {'policy': 'quoted_rfc'}),
    ('missing_input', 'select a1', None, None, {}),
    ('bad_policy_args', 'select a1', b'x,1\n', None, {'delim': '"', 'policy': 'quoted'}),
    ('whitespace_policy_args', 'select a1', b'x,1\n', None, {'delim': ',', 'policy': 'whitespace'}),
    ('runtime_error_join', 'select int(b2) join J.csv on a1 == b1', b'x,1\n', b'x,p\n', {}),
    ('strict_join_error', 'select a1 strict left join J.csv on a1 == b1', b'x,1\nw,2\n', b'x,p\n', {}),
    ('join_key_error', 'select a1 join J.csv on a3 == b1', b'x,1\n', b'x,p\n', {}),
    ('join_header_mismatch', 'select a1 join J.csv on a1 == b1 with (header)', b'n,m\nx,1\n', b'x,p\n', {}),
    ('missing_output_dir', 'select a1', b'x,1\n', None, {'bad_output': True}),
    ('header_count_mismatch_output', 'select distinct count a1, a2', b'n,m\nx,1\n', None, {'with_headers': True}),
    ('monocolumn_output_error', 'select a1, a2', b'x,1\n', None, {'out_policy': 'monocolumn', 'out_delim': ''}),
    ('none_in_output', 'select a1, a5', b'x,1\n', None, {}),
]


def run_scenario(mods, name, query, inp, join, kw):
    rbql, eng, rcsv, cu = mods
    d = tempfile.mkdtemp(prefix='rbqlverif_fd_')
    try:
        in_path = os.path.join(d, 'in.csv')
        out_path = os.path.join(d, 'nosuchdir', 'out.csv') if kw.get('bad_output') else os.path.join(d, 'out.csv')
        join_path = os.path.join(d, 'J.csv')
        if inp is not None:
            with open(in_path, 'wb') as f:
                f.write(inp)
        if join is not None:
            with open(join_path, 'wb') as f:
                f.write(join)
        roles = {os.path.realpath(in_path): 'in', os.path.realpath(out_path): 'out', os.path.realpath(join_path): 'join'}
        tracer = Tracer(roles)
        before = nfds()
        rcsv.open = tracer
        warnings = []
        outcome = 'ok'
        msg = ''
        try:
            rcsv.query_csv(query, in_path, kw.get('delim', ','), kw.get('policy', 'quoted'), out_path, kw.get('out_delim', ','), kw.get('out_policy', 'quoted'),
                           'utf-8', warnings, kw.get('with_headers', False))
        except Exception as e:  # noqa
            outcome = eng.exception_to_error_info(e)[0]
            msg = str(e)[:160]
        finally:
            del rcsv.open
        after = nfds()
        still_open = [f for f in tracer.files if not f.closed]
        leaked = max(after - before, 0) + len(still_open)
        for f in still_open:
            f.close()
        in_after = open(in_path, 'rb').read() if inp is not None else None
        join_after = open(join_path, 'rb').read() if join is not None else None
        return {'scenario': name, 'events': tracer.events, 'leaked': leaked, 'outcome': outcome, 'msg': msg,
                'sources_intact': (in_after == inp) and (join_after == join)}
    finally:
        shutil.rmtree(d, ignore_errors=True)


def fd_scenarios(run):
    """C15 (d) / C06: query_csv closes every file it opened on every path; sources are opened 'rb' and left identical."""
    d = tlcrun.new_scratch('frontends')
    consts = {'Steps': '{"none", "open_out", "open_in", "validate", "preread", "parse", "open_join", "join_preread", "run", "finish"}', 'WithJoin': '{TRUE, FALSE}', 'MUT': '""'}
    res = tlcrun.run_tlc('Frontends', tlcrun.write_cfg(os.path.join(d, 'fe.cfg'), constants=consts, invariants=['AllClosed', 'MonitorTracks']), workers=4, coverage=(run.tier != 'quick'))
    run.add_tlc('Frontends:all-raising-points', res)
    consts['MUT'] = '"skip_close_on_error"'
    mres = tlcrun.run_tlc('Frontends', tlcrun.write_cfg(os.path.join(d, 'femut.cfg'), constants=consts, invariants=['AllClosed']), workers=4, expect_violation=True)
    if mres.violation is None:
        core.machinery_failure('Frontends mutant skip_close_on_error not rejected')
    run.notes.setdefault('spec_mutants_rejected', []).append('Frontends/skip_close_on_error -> ' + mres.violation)
    mods = impl.load()
    traces = []
    results = {}
    for tid, (name, query, inp, join, kw) in enumerate(SCENARIOS, 1):
        r = run_scenario(mods, name, query, inp, join, kw)
        results[tid] = r
        traces.append({'tid': tid, 'events': r['events'], 'leaked': r['leaked']})
        run.traces += 1
        run.count(['fd', name], nontrivial=len(r['events']) >= 2)
        if not r['sources_intact']:
            run.violation({'impl': 'py', 'what': 'query_csv changed a source file', 'scenario': name}, {'kind': 'fd_scenario', 'scenario': name})
    run.notes['fd_scenarios'] = {r['scenario']: r['outcome'] for r in results.values()}
    run.sample({'fd_scenario': results[3]['scenario'], 'events': results[3]['events'], 'outcome': results[3]['outcome']})
    rej = validate(run, 'fd', traces, 'query_csv')
    for tid in rej:
        r = results[tid]
        run.violation({'impl': 'py', 'what': 'file-handle trace rejected by FrontendTrace', 'scenario': r['scenario'], 'leaked': r['leaked'], 'outcome': r['outcome']},
                      {'kind': 'fd_scenario', 'scenario': r['scenario'], 'events': r['events']})
    # corrupted-trace control: dropping a close event must be rejected
    ok_tr = [t for t in traces if any(e[0] == 'close' for e in t['events'])][0]
    bad = {'tid': 1, 'events': [e for e in ok_tr['events'] if e[0] != 'close'], 'leaked': 0}
    ctl = core.Run(run.prop, run.tier, run.seed)
    if validate(ctl, 'fd', [bad], 'control') != {1}:
        core.machinery_failure('corrupted fd trace accepted')
