"""Replay of RbqlEngine cases into the real engine (rbql-py), DESIGN section 4 (B).

Only rendering (abstract -> concrete), running, projecting (concrete -> abstract) and structural
comparison happen here; every expected value comes from TLC (R1).
"""
import copy
import fractions
import hashlib
import json
import math
import re

from . import messages

from . import impl
from .text import s as cps2s


# ------------------------------------------------------------------ rendering: values

def val_py(v):
    t = v[0]
    if t == 's':
        return cps2s(v[1])
    if t == 'n':
        return None
    if t == 'i':
        return v[1]
    if t == 'l':
        return [val_py(x) for x in v[1]]
    if t == 'q':
        return v[1] / float(v[2])
    raise ValueError(v)


def table_py(T):
    return [[val_py(c) for c in rec] for rec in T]


def pystr(cps, dq=False):
    text = cps2s(cps)
    body = text.replace('\\', '\\\\')
    if dq:
        return '"' + body.replace('"', '\\"') + '"'
    return "'" + body.replace("'", "\\'") + "'"


# ------------------------------------------------------------------ rendering: spelling (C08 dimension)

class Spelling(object):
    """Deterministic choice of interchangeable spellings, derived from a seed (all mean the same: C08)."""

    def __init__(self, seed):
        self.h = int(hashlib.sha256(str(seed).encode()).hexdigest(), 16)
        self.n = 0

    def pick(self, options):
        self.n += 1
        self.h = (self.h * 6364136223846793005 + 1442695040888963407 + self.n) % (1 << 64)
        return options[(self.h >> 20) % len(options)]


class Plain(object):
    def pick(self, options):
        return options[0]


class Named(object):
    """Field references always by column name (a.name / a["name"] / a['name'] by `style` 2..4) when a header exists; first option otherwise."""

    def __init__(self, style=2):
        self.style = style

    def pick(self, options):
        if len(options) == 5 and isinstance(options[0], str) and options[0][:1] in 'ab' and options[0][1:].isdigit():
            return options[self.style]
        return options[0]


# ------------------------------------------------------------------ rendering: expressions

def fld(e, case, sp, lang):
    tbl, i = e[1], e[2]
    hdr = case['hdrA'] if tbl == 'a' else case['hdrB']
    forms = ['%s%d' % (tbl, i), '%s[%d]' % (tbl, i)]
    if case['hasHdr'] and i <= len(hdr):
        name = hdr[i - 1]
        forms += ['%s.%s' % (tbl, name), '%s["%s"]' % (tbl, name), "%s['%s']" % (tbl, name)]
    return sp.pick(forms)


def strip_outer(text):
    """Remove one pair of parentheses enclosing the whole text (a top-level operator is then not parenthesised)."""
    if len(text) >= 2 and text[0] == '(' and text[-1] == ')':
        depth = 0
        for i, ch in enumerate(text):
            if ch == '(':
                depth += 1
            elif ch == ')':
                depth -= 1
                if depth == 0 and i != len(text) - 1:
                    return text
        return text[1:-1]
    return text


def expr(e, case, sp, lang='py'):
    k = e[0]
    X = lambda i: expr(e[i], case, sp, lang)  # noqa: E731
    py = lang == 'py'
    if k == 'fld':
        return fld(e, case, sp, lang)
    if k == 'lit':
        return pystr(e[1], dq=sp.pick([False, True]))
    if k == 'int':
        return str(e[1])
    if k in ('NR', 'NF', 'bNR', 'bNF', 'NU'):
        return k
    if k == 'cat' or k == 'add':
        return '(%s + %s)' % (X(1), X(2))
    if k == 'mul':
        return '(%s * %s)' % (X(1), X(2))
    if k == 'num':
        return 'int(%s)' % X(1) if py else 'parseInt(%s)' % X(1)
    if k == 'eq':
        return '(%s == %s)' % (X(1), X(2)) if py else '(%s === %s)' % (X(1), X(2))
    if k == 'ne':
        return '(%s != %s)' % (X(1), X(2)) if py else '(%s !== %s)' % (X(1), X(2))
    if k == 'lt':
        return '(%s < %s)' % (X(1), X(2))
    if k == 'isnone':
        return '(%s is None)' % X(1) if py else '(%s === null)' % X(1)
    if k == 'not':
        return '(not %s)' % X(1) if py else '(!%s)' % X(1)
    if k == 'or':
        return '(%s or %s)' % (X(1), X(2)) if py else '(%s || %s)' % (X(1), X(2))
    if k == 'and':
        return '(%s and %s)' % (X(1), X(2)) if py else '(%s && %s)' % (X(1), X(2))
    if k == 'nrodd':
        return '(NR % 2 == 1)'
    if k == 'true':
        return 'True' if py else 'true'
    if k in ('bmin', 'bmax'):
        if py:
            return '%s(%s, %s)' % ('min' if k == 'bmin' else 'max', X(1), X(2))
        # type-agnostic like Python's min / max (Math.max would turn strings into NaN): a call with a comma in its argument list
        return '((x, y) => (x %s y ? x : y))(%s, %s)' % ('<' if k == 'bmin' else '>', X(1), X(2))
    if k == 'bmaxl':
        return 'max([%s, %s])' % (X(1), X(2))
    if k == 'bsum':
        return 'sum([%s, %s])' % (X(1), X(2))
    if k == 'idx0':
        return '[%s, %s][0]' % (X(1), strip_outer(X(2)))
    if k == 'dsub':
        return "{'k': %s, 'm': %s}['k']" % (X(1), X(2)) if py else "{k: %s, m: %s}['k']" % (X(1), X(2))
    if k == 'udf':
        return 'udf1(%s)' % X(1)
    if k == 'poison':
        bad = pystr(e[2])
        if py:
            return '(lambda v: v if v != %s else [][0])(%s)' % (bad, X(1))
        return '(function(v) { if (v === %s) throw new Error("poison"); return v; })(%s)' % (bad, X(1))
    raise ValueError(e)


def listexpr(le, case, sp, lang):
    k = le[0]
    if k == 'flds':
        return '[' + ', '.join(fld(['fld', 'a', i], case, sp, lang) for i in le[1]) + ']'
    if k == 'rep':
        if lang == 'py':
            return '[%s] * (NF - 1)' % expr(le[1], case, sp, lang)
        return 'Array(Math.max(NF - 1, 0)).fill(%s)' % expr(le[1], case, sp, lang)
    if k == 'lits':
        return '[' + ', '.join(pystr(c, dq=sp.pick([False, True])) for c in le[1]) + ']'
    if k == 'empty':
        return '[]'
    raise ValueError(le)


AGG_SPELL = {'COUNT': ['COUNT', 'count', 'Count'], 'MIN': ['MIN', 'min', 'Min'], 'MAX': ['MAX', 'max', 'Max'], 'SUM': ['SUM', 'sum', 'Sum'],
             'AVG': ['AVG', 'avg', 'Avg'], 'VARIANCE': ['VARIANCE', 'variance', 'Variance'], 'MEDIAN': ['MEDIAN', 'median', 'Median'],
             'ARRAY_AGG': ['ARRAY_AGG', 'array_agg'], 'ANY_VALUE': ['ANY_VALUE', 'any_value', 'Any_value']}


def item(it, case, sp, lang, first):
    k = it[0]
    if k == 'e':
        t = expr(it[1], case, sp, lang)
        return strip_outer(t) if (it[1][0] in ('or', 'and', 'eq', 'ne', 'cat') and ',' not in t and sp.pick([True, False])) else t
    if k == 'star':
        return '*'
    if k == 'astar':
        return 'a.*'
    if k == 'bstar':
        return 'b.*'
    if k == 'unnest':
        return sp.pick(['UNNEST', 'unnest', 'Unnest']) + '(' + listexpr(it[1], case, sp, lang) + ')'
    if k == 'agg':
        f = sp.pick(AGG_SPELL[it[1]])
        if it[1] == 'COUNT' and it[2] == ['int', 1]:
            return f + sp.pick(['(1)', '(*)', '( * )'])
        return '%s(%s)' % (f, expr(it[2], case, sp, lang))
    if k == 'aggplus':
        return '%s(%s) + 1' % (sp.pick(AGG_SPELL[it[1]][:2]), expr(it[2], case, sp, lang))
    if k == 'aggattr':
        return '%s(%s).strip()' % (sp.pick(AGG_SPELL[it[1]][:2]), expr(it[2], case, sp, lang)) if lang == 'py' else '%s(%s).trim()' % (sp.pick(AGG_SPELL[it[1]][:2]), expr(it[2], case, sp, lang))
    if k == 'as':
        inner = item(it[1], case, sp, lang, first)
        if it[1][0] == 'e' and it[1][1][0] in ('or', 'and', 'eq'):
            inner = strip_outer(expr(it[1][1], case, sp, lang))
        return '%s %s %s' % (inner, sp.pick(['as', 'AS']), it[2])
    raise ValueError(it)


def kw(word, sp):
    w = sp.pick([word, word.lower(), word.capitalize()])
    if ' ' in w:
        # ORDER BY / GROUP BY / LEFT OUTER JOIN ...: any number of spaces between the words of one keyword
        w = w.replace(' ', sp.pick([' ', ' ', '  ', '   ']))
    return w


def render_query(case, sp=None, lang='py'):
    """Abstract query descriptor -> RBQL query text."""
    sp = sp or Plain()
    q = case['q']
    clauses = []
    if q['kind'] == 'update':
        asg = ', '.join('%s = %s' % (fld(['fld', 'a', a[0]], case, sp, lang), expr(a[1], case, sp, lang)) for a in q['assign'])
        head = sp.pick(['UPDATE ', 'UPDATE SET ', 'update set ', 'UPDATE a SET ']) + asg
    else:
        head = kw('SELECT', sp)
        top_in_head = q['hastop'] and sp.pick([True, False])
        if top_in_head:
            head += ' ' + kw('TOP', sp) + ' %d' % q['top']
        if q['distinct'] == 'uniq':
            head += ' ' + kw('DISTINCT', sp)
        elif q['distinct'] == 'count':
            head += ' ' + kw('DISTINCT', sp) + ' ' + kw('COUNT', sp)
        if q['hasexc']:
            head += ' *'
            clauses.append(kw('EXCEPT', sp) + ' ' + ', '.join(fld(['fld', 'a', i], case, sp, lang) for i in q['exc']))
        else:
            head += ' ' + ', '.join(item(it, case, sp, lang, n == 0) for n, it in enumerate(q['items']))
        if q['hastop'] and not top_in_head:
            clauses.append(kw('LIMIT', sp) + ' %d' % q['top'])
        if case.get('from_table'):
            # input table named in the query text and resolved through the tables registry (no context input): FROM is a clause like the others
            clauses.append(kw('FROM', sp) + ' ' + case['from_table'])
        elif sp.pick([False, False, True]):
            head += ' ' + kw('FROM', sp) + ' a'
    if q['join'] != 'none':
        jw = {'inner': ['JOIN', 'INNER JOIN'], 'left': ['LEFT JOIN', 'LEFT OUTER JOIN'], 'strict': ['STRICT LEFT JOIN']}[q['join']]
        pairs = []
        for lhs, rhs in q['jkeys']:
            l = 'NR' if lhs == 0 else fld(['fld', 'a', lhs], case, sp, lang)
            # a.NR / b.NR are looked up as column names when the table has a header (observation I9): only without header
            if lhs == 0:
                l = sp.pick(['NR', 'aNR'] + ([] if case['hasHdr'] else ['a.NR'])) if lang == 'py' else 'NR'
            r = sp.pick(['bNR'] + ([] if case['hasHdr'] else ['b.NR'])) if rhs == 0 else fld(['fld', 'b', rhs], case, sp, lang)
            eq = sp.pick(['==', '=', ' == ', ' = '])
            # field keys may be written in either side order; NR / bNR keep their sides (C04 quantifier)
            swap = lhs != 0 and rhs != 0 and sp.pick([False, True])
            pairs.append((r + eq + l) if swap else (l + eq + r))
        clauses.append(kw(sp.pick(jw), sp) + ' ' + sp.pick(['B', 'b']) + ' ' + kw('ON', sp) + ' ' + (' ' + kw('AND', sp) + ' ').join(pairs))
    if q['where'] != ['true']:
        wt = expr(q['where'], case, sp, lang)
        if q['where'][0] in ('or', 'and', 'eq', 'ne') and sp.pick([True, False]):
            wt = strip_outer(wt)        # a top-level operator without enclosing parentheses
        clauses.append(kw('WHERE', sp) + ' ' + wt)
    if q['order']:
        o = kw('ORDER BY', sp) + ' ' + ', '.join(expr(e, case, sp, lang) for e in q['order'])
        if q['desc']:
            o += ' ' + kw('DESC', sp)
        elif sp.pick([False, True]):
            o += ' ' + kw('ASC', sp)
        clauses.append(o)
    if q['hasgroup']:
        clauses.append(kw('GROUP BY', sp) + ' ' + ', '.join(expr(e, case, sp, lang) for e in q['group']))
    # clause order after SELECT/UPDATE is free (C08)
    mistake = q.get('mistake', '')
    if mistake == 'where_assign':
        clauses = [c.replace('===', '=').replace('==', '=') if c.upper().startswith('WHERE') else c for c in clauses]
    elif mistake == 'two_selects':
        clauses.append('select a2')
    elif mistake == 'bad_limit':
        clauses = [c for c in clauses if not c.upper().startswith('LIMIT')] + ['LIMIT x1']
        head = re.sub(r'(?i) TOP \d+', '', head)
    elif mistake == 'unknown_except_field':
        clauses = [(c + ', a.nosuchcolumn' if case['hasHdr'] else c + ', a') if c.upper().startswith('EXCEPT') else c for c in clauses]
    elif mistake == 'unknown_update_field':
        head = head + ', axyz = 1'
    order = list(range(len(clauses)))
    for i in range(len(order) - 1, 0, -1):
        j = sp.pick(list(range(i + 1)))
        order[i], order[j] = order[j], order[i]
    text = head
    for i in order:
        text += sp.pick([' ', '  ', '\n', ' \t ']) + clauses[i]
    text += sp.pick(['', '', ';', ' ;'])
    return text


# ------------------------------------------------------------------ projection: concrete -> abstract

def project_value(v):
    if v is None:
        return ['n']
    if isinstance(v, bool):
        return ['b', v]
    if isinstance(v, str):
        return ['s', [ord(c) for c in v]]
    if isinstance(v, int):
        return ['i', v]
    if isinstance(v, float):
        return ['f', v]
    if isinstance(v, (list, tuple)):
        return ['l', [project_value(x) for x in v]]
    return ['?', repr(v)]


def cell_matches(got, want):
    """Structural comparison of a projected cell with the TLC value. Floats are compared with the exact rational (R3)."""
    t = want[0]
    if t == 'any':
        return any(cell_matches(got, w) for w in want[1])
    if t in ('i', 'q'):
        if got[0] not in ('i', 'f'):
            return False
        w = fractions.Fraction(want[1], 1) if t == 'i' else fractions.Fraction(want[1], want[2])
        g = got[1]
        if isinstance(g, float):
            if math.isnan(g) or math.isinf(g):
                return False
            g = fractions.Fraction(g)
        else:
            g = fractions.Fraction(g)
        if w == g:
            return True
        scale = max(abs(w), 1)
        return abs(g - w) <= fractions.Fraction(1, 10 ** 9) * scale
    if t == 'l':
        return got[0] == 'l' and len(got[1]) == len(want[1]) and all(cell_matches(g, w) for g, w in zip(got[1], want[1]))
    return got == want


def rows_match(got, want):
    if len(got) != len(want):
        return False
    for g, w in zip(got, want):
        if len(g) != len(w):
            return False
        for gc, wc in zip(g, w):
            if not cell_matches(gc, wc):
                return False
    return True


ERR_CLASS = {'query execution': 'runtime', 'query parsing': 'parsing', 'IO handling': 'io'}
_rec_no = re.compile(r'[Rr]ecord (\d+)')
_afield = re.compile(r'"a(\d+)"')
_bindex = re.compile(r'index (\d+)')
_bfield = re.compile(r'"b(\d+)"')       # another way of naming the missing field of a join-table record


def project_error(eng, e):
    etype, msg = eng.exception_to_error_info(e)
    cls = ERR_CLASS.get(etype, etype)
    m = _rec_no.search(msg)
    nr = int(m.group(1)) if m else 0
    fld_ = 0
    m = _afield.search(msg)
    if m:
        fld_ = int(m.group(1))
    else:
        m = _bindex.search(msg)
        if m and 'B' in msg:
            fld_ = -int(m.group(1))
        else:
            m = _bfield.search(msg)
            if m:
                fld_ = -int(m.group(1))
    return {'cls': cls, 'nr': nr, 'fld': fld_, 'msg': msg[:200], 'pyclass': type(e).__name__}


# ------------------------------------------------------------------ recorders

def make_recorders(eng):
    class RecIterator(eng.TableIterator):
        def __init__(self, table, column_names, events, tag, variable_prefix='a', endless_cap=0):
            eng.TableIterator.__init__(self, table, column_names, True, variable_prefix)
            self.events = events
            self.tag = tag
            self.calls = 0
            self.endless_cap = endless_cap      # > 0: the iterator never ends (it starts over), up to this many calls (then it gives up)
            self.gave_up = False

        def get_record(self):
            self.calls += 1
            if self.endless_cap and self.table:
                if self.calls > self.endless_cap:
                    self.gave_up = True
                    self.events.append({'e': 'get_record', 't': self.tag, 'end': True})
                    return None
                if self.NR >= len(self.table):
                    self.NR = 0
            r = eng.TableIterator.get_record(self)
            self.events.append({'e': 'get_record', 't': self.tag, 'end': r is None})
            return r

    class RecWriter(eng.RBQLOutputWriter):
        def __init__(self, events, break_at, sources):
            self.events = events
            self.break_at = break_at
            self.calls = 0
            self.rows = []
            self.header = None
            self.header_set = 0
            self.sources = sources          # list of (table, snapshot)
            self.alias = False
            self.src_changed = False
            self.finished = 0

        def _check_sources(self):
            for table, snap in self.sources:
                if table != snap:
                    self.src_changed = True

        def set_header(self, header):
            self.header_set += 1
            self.header = None if header is None else list(header)
            self.events.append({'e': 'set_header'})
            self._check_sources()

        def write(self, fields):
            self.calls += 1
            ok = not (self.break_at and self.calls >= self.break_at)
            for table, _ in self.sources:
                for row in table:
                    if row is fields:
                        self.alias = True
            self._check_sources()
            if ok:
                self.rows.append(fields)
            self.events.append({'e': 'write', 'ok': ok})
            return ok

        def finish(self):
            self.finished += 1
            self.events.append({'e': 'finish'})
            self._check_sources()

    class Registry(eng.RBQLTableRegistry):
        def __init__(self, table, column_names, events):
            self.table = table
            self.column_names = column_names
            self.events = events
            self.it = None

        def get_iterator_by_table_id(self, table_id, single_char_alias='b'):
            if table_id.lower() != 'b':
                return None
            self.it = RecIterator(self.table, self.column_names, self.events, 'b', single_char_alias)
            return self.it

    return RecIterator, RecWriter, Registry


_quoted_name = re.compile(r'"(\w+)"')
_WARN_RAG = re.compile(r'"(\w+)" table is not consistent: e\.g\. record (\d+) -> (\d+) fields, record (\d+) -> (\d+) fields')


def run_case_py(mods, case, query_text, endless_cap=0, shared_A=None):
    """Run one case through rbql.query with recording iterator / writer. Returns the observation dict."""
    rbql, eng, rcsv, cu = mods
    RecIterator, RecWriter, Registry = make_recorders(eng)
    A = table_py(case['A']) if shared_A is None else shared_A       # shared_A: the very list object an earlier query of a history ran over
    B = table_py(case['B'])
    snapA = copy.deepcopy(A)
    snapB = copy.deepcopy(B)
    events = []
    hdrA = list(case['hdrA']) if case['hasHdr'] else None
    hdrB = list(case['hdrB']) if case['hasHdr'] else None
    iofault = case['q'].get('iofault', '')
    if iofault == 'hdr_len' and hdrA is not None:
        hdrA = hdrA + ['extra']
    if iofault == 'join_hdr_missing':
        hdrB = None
    it = RecIterator(A, hdrA, events, 'a', endless_cap=endless_cap)
    wr = RecWriter(events, case['breakAt'], [(A, snapA), (B, snapB)])
    reg = Registry(B, hdrB, events) if case['q']['join'] != 'none' else None
    warnings = []
    obs = {'err': None}
    init = {'def': 'def udf1(x):\n    return x + "u"', 'raise': 'raise ValueError("init failed")'}.get(case['q'].get('init', ''), '')
    try:
        eng.query(query_text, it, wr, warnings, reg, user_init_code=init)
    except Exception as e:  # noqa
        obs['err'] = project_error(eng, e)
    obs['rows'] = [[project_value(c) for c in r] for r in wr.rows]
    obs['hdr'] = wr.header
    obs['events'] = events
    obs['pulled'] = it.calls
    obs['gave_up'] = it.gave_up
    obs['alias'] = wr.alias
    obs['src_changed'] = wr.src_changed or A != snapA or B != snapB
    obs['warnings'] = warnings
    rag = []
    for w in warnings:
        k = messages.classify_warning(w)
        if k[0] == 'ragged':
            label = _quoted_name.search(w)
            rag.append([label.group(1) if label else ''] + k[1])
    obs['ragged'] = rag
    return obs


def judge(case, obs, query_text, check_header=True):
    """Structural comparison of an observation with TLC's expectation. Returns a list of violation signatures."""
    exp = case['expect']
    sigs = []
    base = {'impl': 'py', 'kind': case['q']['kind'], 'join': case['q']['join'], 'query': query_text}
    want_err = exp['err'][0] if exp['err'] else None
    got_err = obs['err']
    if want_err is None:
        if got_err is not None:
            sigs.append(dict(base, what='unexpected error', errcls=got_err['cls'], msg=got_err['msg']))
            return sigs
        if not rows_match(obs['rows'], exp['out']):
            sigs.append(dict(base, what='result rows', got=obs['rows'], want=exp['out']))
        if check_header:
            if exp['hashdr']:
                if obs['hdr'] != list(exp['hdr']) and not (obs.get('empty_header_is_none') and not exp['hdr'] and obs['hdr'] is None):
                    sigs.append(dict(base, what='header', got=obs['hdr'], want=exp['hdr'], distinct=case['q']['distinct']))
            elif obs['hdr'] is not None:
                sigs.append(dict(base, what='header present', got=obs['hdr']))
    else:
        if case['breakAt'] != 0:
            return sigs          # with a fault plan the run may stop before the offending record (not compared)
        alt = exp.get('alt') or {}
        if got_err is None and alt.get('has'):
            # RefAlt: an engine that stops right after the N-th row never evaluates the offending record; the N rows are the other acceptable outcome
            if not rows_match(obs['rows'], alt['out']):
                sigs.append(dict(base, what='result rows (early-stop alternative)', got=obs['rows'], want=alt['out']))
            return sigs
        if got_err is None:
            sigs.append(dict(base, what='missing error', want=want_err))
        elif got_err['cls'] != want_err['cls']:
            sigs.append(dict(base, what='error class', got=got_err['cls'], want=want_err['cls'], msg=got_err['msg']))
        elif want_err['nr'] > 0 and got_err['nr'] != want_err['nr']:
            sigs.append(dict(base, what='error record number', got=got_err['nr'], want=want_err['nr'], msg=got_err['msg']))
        elif want_err['nr'] > 0 and want_err['fld'] != 0 and got_err['fld'] != want_err['fld']:
            sigs.append(dict(base, what='error field', got=got_err['fld'], want=want_err['fld'], msg=got_err['msg']))
    return sigs


# ------------------------------------------------------------------ the JavaScript port (C19, C06)

JS_ERR = {'RbqlRuntimeError': 'runtime', 'RbqlParsingError': 'parsing', 'RbqlIOHandlingError': 'io', 'SyntaxError': 'syntax'}


def val_js(v):
    return val_py(v)


def js_request(case, query_text):
    A = table_py(case['A'])
    B = table_py(case['B'])
    req = {'op': 'query_table', 'query': query_text, 'input': A}
    if case['q']['join'] != 'none':
        req['join'] = B
    if case['hasHdr']:
        req['input_header'] = list(case['hdrA'])
        if case['q']['join'] != 'none':
            req['join_header'] = list(case['hdrB'])
    iofault = case['q'].get('iofault', '')
    if iofault == 'hdr_len' and case['hasHdr']:
        req['input_header'] = req['input_header'] + ['extra']
    if iofault == 'join_hdr_missing':
        req.pop('join_header', None)
    return req


def js_observation(resp):
    obs = {'err': None, 'rows': resp.get('out', []), 'hdr': None, 'empty_header_is_none': True, 'alias': bool(resp.get('alias')), 'src_changed': not resp.get('src_intact', True)}
    if resp.get('error'):
        e = resp['error']
        msg = e['msg']
        m = _rec_no.search(msg)
        fld_ = 0
        mm = _afield.search(msg)
        if mm:
            fld_ = int(mm.group(1))
        else:
            mm = _bindex.search(msg)
            if mm and 'B' in msg:
                fld_ = -int(mm.group(1))
            else:
                mm = _bfield.search(msg)
                if mm:
                    fld_ = -int(mm.group(1))
        obs['err'] = {'cls': JS_ERR.get(e['cls'], e['cls']), 'nr': int(m.group(1)) if m else 0, 'fld': fld_, 'msg': msg[:200]}
    else:
        hdr = resp.get('header')
        obs['hdr'] = hdr if hdr else None
    return obs
