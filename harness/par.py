"""Shard replay work over processes (each a fork of a parent that imported the tree's code)."""
import multiprocessing
import os

NPROC = int(os.environ.get('VERIF_NPROC', '16'))


def chunks(seq, n):
    for i in range(0, len(seq), n):
        yield seq[i:i + n]


def pmap(func, items, chunk=2000, nproc=None):
    """func(list_of_items) -> list_of_results (any length); results are concatenated in order."""
    nproc = nproc or NPROC
    items = list(items)
    if len(items) <= chunk or nproc <= 1:
        return func(items)
    ctx = multiprocessing.get_context('fork')
    with ctx.Pool(nproc) as pool:
        out = []
        for part in pool.imap(func, list(chunks(items, chunk))):
            out.extend(part)
    return out
