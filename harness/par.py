"""Shard replay work over processes (each a fork of a parent that imported the tree's code)."""
import multiprocessing
import os
import signal
import traceback

NPROC = int(os.environ.get('VERIF_NPROC', '16'))
# a chunk of replay work that is still INSIDE the implementation after this many seconds counts as a hang of the implementation
CHUNK_LIMIT_S = int(os.environ.get('VERIF_CHUNK_LIMIT_S', '2400'))


class ImplementationFault(Exception):
    """The implementation raised, or did not return, at a place where the harness expects neither (it only calls it on inputs the
    specification defines). Reported as a VIOLATION by harness/main.py, not as a failure of the machinery."""


def _repo():
    from . import impl
    return os.path.realpath(impl.REPO)


def innermost_in_repo(tb):
    """Is the frame that raised inside the implementation tree?"""
    last = None
    while tb is not None:
        last = tb
        tb = tb.tb_next
    return last is not None and os.path.realpath(last.tb_frame.f_code.co_filename).startswith(_repo() + os.sep)


def remote_in_repo(exc):
    """An exception re-raised by multiprocessing carries the worker's traceback as text (RemoteTraceback): was its innermost frame in the tree?"""
    import re
    cause = getattr(exc, '__cause__', None)
    if cause is None or cause.__class__.__name__ != 'RemoteTraceback':
        return False
    files = re.findall(r'File "([^"]+)", line', str(cause))
    return bool(files) and os.path.realpath(files[-1]).startswith(_repo() + os.sep)


def chunks(seq, n):
    for i in range(0, len(seq), n):
        yield seq[i:i + n]


class _Guard(object):
    def __init__(self, func):
        self.func = func

    def __call__(self, part):
        def on_alarm(signum, frame):
            f = frame
            while f is not None:
                if os.path.realpath(f.f_code.co_filename).startswith(_repo() + os.sep):
                    raise ImplementationFault('no return from the implementation after %d s; innermost implementation frame: %s:%d %s' % (
                        CHUNK_LIMIT_S, f.f_code.co_filename, f.f_lineno, f.f_code.co_name))
                f = f.f_back
            raise TimeoutError('replay chunk exceeded %d s outside the implementation' % CHUNK_LIMIT_S)
        old = signal.signal(signal.SIGALRM, on_alarm)
        signal.setitimer(signal.ITIMER_REAL, CHUNK_LIMIT_S)
        try:
            return ('ok', self.func(part))
        except ImplementationFault as e:
            return ('fault', str(e))
        except Exception as e:  # noqa
            if innermost_in_repo(e.__traceback__):
                return ('fault', 'unexpected exception from the implementation:\n' + traceback.format_exc()[-3000:])
            raise
        finally:
            signal.setitimer(signal.ITIMER_REAL, 0)
            signal.signal(signal.SIGALRM, old)


def pmap(func, items, chunk=2000, nproc=None):
    """func(list_of_items) -> list_of_results (any length); results are concatenated in order."""
    nproc = nproc or NPROC
    items = list(items)
    if len(items) <= chunk or nproc <= 1:
        return func(items)
    ctx = multiprocessing.get_context('fork')
    with ctx.Pool(nproc) as pool:
        out = []
        for status, part in pool.imap(_Guard(func), list(chunks(items, chunk))):
            if status == 'fault':
                pool.terminate()
                raise ImplementationFault(part)
            out.extend(part)
    return out
