"""What a warning or error text SAYS, independent of how it is worded.

The statements fix which information a message carries (its kind, the record / line numbers and field counts it cites), never its
wording; a maintainer may rephrase any of them.  Every check reads messages through these functions only."""
import re

_quoted = re.compile(r'"[^"]*"|\'[^\']*\'')
_int = re.compile(r'(?<![\w.])-?\d+(?![\w.]*\w)')


def ints(text):
    """Integers cited by a message; quoted names (table names, keys, values) do not count."""
    return [int(x) for x in re.findall(r'-?\d+', _quoted.sub(' ', text))]


def near(word, text, span=18):
    """The first integer that follows `word` within a few non-digit characters (record 3 / record number: 3 / record #3)."""
    m = re.search(word + r'[^\d]{0,%d}?(\d+)' % span, _quoted.sub(' ', text), re.I)
    return int(m.group(1)) if m else None


def classify_warning(w):
    """-> ('bom',) | ('ragged', [rec1, n1, rec2, n2]) | ('quoting', first_defective_line) | ('none',) | ('separator',) | ('other',)"""
    lw = w.lower()
    if 'bom' in lw or 'byte order mark' in lw:
        return ('bom',)
    if 'field' in lw and len(ints(w)) >= 4 and 'separator' not in lw and 'delimiter' not in lw:
        return ('ragged', ints(w)[:4])
    if 'quot' in lw:
        n = near('line', w)
        if n is None:
            n = (ints(w) or [0])[0]
        return ('quoting', n)
    if 'none' in lw or 'null' in lw:
        return ('none',)
    if 'separator' in lw or 'delimiter' in lw:
        return ('separator',)
    return ('other',)


def kinds(warnings):
    return [classify_warning(w) for w in warnings or []]


def has_kind(warnings, kind):
    return any(k[0] == kind for k in kinds(warnings))


def record_and_line(msg):
    """(record number, line number) cited by a reader error, whatever the order and wording; None if either is missing."""
    r = near('record', msg)
    l = near('line', msg)
    if r is None or l is None:
        return None
    return r, l
