"""Load the implementation from the working tree of /repo (never site-packages, DESIGN section 0)."""
import os
import sys

REPO = os.environ.get('RBQL_REPO', '/repo')
sys.dont_write_bytecode = True


def load():
    pkg_root = os.path.join(REPO, 'rbql-py')
    if sys.path[0] != pkg_root:
        sys.path.insert(0, pkg_root)
    for k in list(sys.modules):
        if k == 'rbql' or k.startswith('rbql.'):
            mod = sys.modules[k]
            if not getattr(mod, '__file__', '').startswith(pkg_root):
                del sys.modules[k]
    import rbql
    from rbql import rbql_engine, rbql_csv, csv_utils
    assert rbql.__file__.startswith(pkg_root), rbql.__file__
    assert rbql_engine.__file__.startswith(pkg_root)
    return rbql, rbql_engine, rbql_csv, csv_utils
